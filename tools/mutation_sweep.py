#!/usr/bin/env python3
"""Operator-level mutation sweep of chiritori's non-test code, run in a scratch copy (/tmp/mu).

For every mutant: unit tests (cargo test --workspace) must still pass, otherwise it is "killed by the
repository's own tests" and irrelevant; then the quick checks mapped to the mutated file are run until one
reports a violation. Survivors are listed for manual analysis (equivalent mutant or gap).

usage: tools/mutation_sweep.py [--files f1,f2] [--limit N] [--out FILE]
"""
import re, subprocess, sys, os, json, shutil, time

MU = '/tmp/mu'
REPO = f'{MU}/repo'
VERIF = f'{MU}/verif'

FILES = {
 'chiritori/src/tokenizer.rs': ['C07', 'C08', 'C01'],
 'chiritori/src/element_parser.rs': ['C09', 'C06', 'C01', 'C03'],
 'chiritori/src/parser.rs': ['C10', 'C03', 'C01'],
 'chiritori/src/chiritori.rs': ['C03', 'C15', 'C17', 'C06', 'C05'],
 'chiritori/src/code/remover.rs': ['C03', 'C02', 'C17', 'C11', 'C12', 'C01', 'C06'],
 'chiritori/src/code/remover/marker/builder/unwrap_block_marker_builder.rs': ['C11', 'C03', 'C19', 'C04'],
 'chiritori/src/code/remover/marker/builder/range_marker_builder.rs': ['C03', 'C02'],
 'chiritori/src/code/remover/marker/availability/unwrap_block_marker_availability.rs': ['C11', 'C03'],
 'chiritori/src/code/remover/marker/factory.rs': ['C11', 'C03'],
 'chiritori/src/code/remover/removal_evaluator/time_limited_evaluator.rs': ['C05', 'C04'],
 'chiritori/src/code/remover/removal_evaluator/marker_evaluator.rs': ['C06', 'C09'],
 'chiritori/src/code/formatter.rs': ['C14', 'C13', 'C12', 'C02', 'C11', 'C19', 'C01'],
 'chiritori/src/code/formatter/indent_remover.rs': ['C13', 'C12', 'C04', 'C01'],
 'chiritori/src/code/formatter/empty_line_remover.rs': ['C13', 'C11', 'C19', 'C04', 'C01'],
 'chiritori/src/code/formatter/prev_line_break_remover.rs': ['C13', 'C11', 'C04'],
 'chiritori/src/code/formatter/next_line_break_remover.rs': ['C13', 'C11', 'C04'],
 'chiritori/src/code/formatter/block_indent_remover.rs': ['C12', 'C14', 'C02', 'C01'],
 'chiritori/src/code/list.rs': ['C16', 'C15', 'C17', 'C01'],
 'chiritori/src/code/utils/line_break_pos_finder.rs': ['C13', 'C12', 'C16', 'C11', 'C01'],
 'chiritori/src/code/utils/char_pos_finder.rs': ['C12', 'C14', 'C01'],
 'chiritori/src/code/utils/line_map.rs': ['C15', 'C16'],
 'chiritori/src/code/utils/blank_counter.rs': ['C16'],
 'chiritori-cli/src/main.rs': ['C20', 'C06', 'C05'],
}

OPS = [
 (r'<=', '<'), (r'>=', '>'), (r'(?<![<>=!\-])<(?![<>=])', '<='), (r'(?<![<>=!\-])>(?![<>=])', '>='),
 (r'==', '!='), (r'!=', '=='), (r'&&', '||'), (r'\|\|', '&&'),
 (r'\+ 1\b', '+ 0'), (r'\+ 1\b', '+ 2'), (r'- 1\b', '- 0'), (r'\btrue\b', 'false'), (r'\bfalse\b', 'true'),
 (r'\.min\(', '.max('), (r'\.max\(', '.min('), (r'is_none\(\)', 'is_some()'), (r'is_some\(\)', 'is_none()'),
 (r'if !', 'if '), (r"' ' \| '\\n'", "' '"), (r"Some\(b' '\) => CheckResult::Skip", "Some(b' ') => CheckResult::None"),
 (r'\.rev\(\)', ''), (r'saturating_sub', 'wrapping_sub'), (r'\+= 1', '+= 2'), (r'-= 1', '-= 2'),
 (r'\.any\(', '.all('), (r'\.all\(', '.any('), (r'trim_start_matches', 'trim_end_matches'), (r'\.contains\(', '.starts_with('),
]


def sh(cmd, cwd=None, env=None, timeout=None):
    e = dict(os.environ)
    if env:
        e.update(env)
    # own process group, so that a timeout kills everything the command started (hung tests, hung checks)
    import signal
    p = subprocess.Popen(cmd, shell=True, cwd=cwd, env=e, stdout=subprocess.PIPE, stderr=subprocess.STDOUT, text=True, start_new_session=True)
    try:
        out, _ = p.communicate(timeout=timeout)
        return p.returncode, out
    except subprocess.TimeoutExpired:
        try:
            os.killpg(p.pid, signal.SIGKILL)
        except ProcessLookupError:
            pass
        p.wait()
        return 124, 'timeout'


MODE = 'ops'


def gen_mutants(path):
    if MODE == 'delete':
        return gen_deletions(path)
    return gen_op_mutants(path)


def gen_deletions(path):
    """statement deletion: single-line statements that are calls / assignments (not declarations)"""
    src = open(f'/repo/{path}').read()
    cut = src.find('#[cfg(test)]')
    body = src if cut < 0 else src[:cut]
    muts = []
    for li, line in enumerate(body.split('\n')):
        st = line.strip()
        if not st.endswith(';') or st.startswith(('let ', 'use ', 'pub ', '//', 'return', 'const ', 'type ', 'static ', 'mod ', '}', ')')):
            continue
        if st.count('(') != st.count(')'):
            continue
        muts.append((li, 0, st, '/* deleted */', line[:len(line) - len(line.lstrip())] + '/* deleted */'))
    return src, muts


def gen_op_mutants(path):
    src = open(f'/repo/{path}').read()
    cut = src.find('#[cfg(test)]')
    body = src if cut < 0 else src[:cut]
    muts = []
    in_generic = re.compile(r'(fn |impl|struct |enum |type |->|Vec<|Option<|Range<|Box<|Rc<|HashMap<|HashSet<|<\'|Iterator<|: &|where)')
    for li, line in enumerate(body.split('\n')):
        stripped = line.strip()
        if stripped.startswith('//') or stripped.startswith('#[') or stripped.startswith('use ') or stripped.startswith('pub mod'):
            continue
        code = line.split('//')[0] if '///' not in line else ''
        for pat, rep in OPS:
            for m in re.finditer(pat, code):
                if pat.startswith('(?<![<>=') and in_generic.search(code):
                    continue  # angle brackets of generics
                new = line[:m.start()] + rep + line[m.end():]
                if new != line:
                    muts.append((li, m.start(), line.strip(), new.strip(), new))
    return src, muts


def main():
    global MODE
    files = list(FILES)
    limit = None
    out = '/verif/seeded/MUTATION_SWEEP.md'
    args = sys.argv[1:]
    while args:
        a = args.pop(0)
        if a == '--files':
            files = args.pop(0).split(',')
        elif a == '--limit':
            limit = int(args.pop(0))
        elif a == '--out':
            out = args.pop(0)
        elif a == '--mode':
            MODE = args.pop(0)
    sh(f'git -C /repo worktree remove --force {REPO}')
    shutil.rmtree(MU, ignore_errors=True)
    os.makedirs(MU)
    rc, o = sh(f'git -C /repo worktree add -q --detach {REPO} HEAD')
    assert rc == 0, o
    sh(f'rsync -a --exclude .build --exclude .git --exclude evidence/replays /verif/ {VERIF}/')
    sh(f"sed -i 's#path = \"/repo/chiritori\"#path = \"{REPO}/chiritori\"#' {VERIF}/harness/Cargo.toml")
    sh(f"sed -i 's#^target-dir.*#target-dir = \"{VERIF}/.build/harness\"#' {VERIF}/harness/.cargo/config.toml")
    env = {'VERIF_ROOT': VERIF, 'REPO_ROOT': REPO, 'CARGO_NET_OFFLINE': 'true', 'CARGO_TARGET_DIR': f'{MU}/repo-target'}
    rows = []
    stats = {'total': 0, 'not_compiling': 0, 'killed_by_unit_tests': 0, 'killed_by_checks': 0, 'survived': 0, 'inconclusive': 0}
    t0 = time.time()
    for path in files:
        src, muts = gen_mutants(path)
        lines = src.split('\n')
        for (li, col, before, after, newline) in muts:
            if limit and stats['total'] >= limit:
                break
            stats['total'] += 1
            mutated = lines[:]
            mutated[li] = newline
            open(f'{REPO}/{path}', 'w').write('\n'.join(mutated))
            rc, o = sh('cargo test --offline --workspace', cwd=REPO, env=env, timeout=240)
            if rc != 0:
                if 'error[' in o or 'error:' in o and 'test result' not in o:
                    stats['not_compiling'] += 1
                    verdict = 'does not compile'
                elif rc == 124:
                    stats['killed_by_unit_tests'] += 1
                    verdict = 'unit tests hang (killed)'
                else:
                    stats['killed_by_unit_tests'] += 1
                    verdict = 'killed by unit tests'
                open(f'{REPO}/{path}', 'w').write(src)
                continue  # not relevant: not listed
            caught = None
            incon = []
            env2 = dict(env)
            env2.pop('CARGO_TARGET_DIR')
            checks = FILES[path] if MODE == 'ops' else list(dict.fromkeys(FILES[path] + ['C02', 'C03', 'C14', 'C12', 'C13', 'C19']))
            for cid in checks:
                env2['VERIF_WATCHDOG_S'] = '240'
                rc, o = sh(f'{VERIF}/bin/check {cid} quick', env=env2, timeout=400)
                if rc == 1 and 'VIOLATION' in o:
                    caught = cid
                    break
                if rc != 0:
                    incon.append(f'{cid}(exit {rc})')
                    if 'watchdog' in o or rc == 124:
                        incon.append('HANGS')
                        break
            open(f'{REPO}/{path}', 'w').write(src)
            if caught:
                stats['killed_by_checks'] += 1
                verdict = f'caught by {caught}'
            elif incon:
                stats['inconclusive'] += 1
                verdict = 'INCONCLUSIVE ' + ' '.join(incon)
            else:
                stats['survived'] += 1
                verdict = 'SURVIVED ' + ' '.join(FILES[path])
            row = f'| {path}:{li+1} | `{before[:90]}` | `{after[:90]}` | {verdict} |'
            rows.append(row)
            print(row, flush=True)
    with open(out, 'w') as f:
        f.write('# Operator-level mutation sweep (relevant mutants only: they compile and pass the repository\'s own tests)\n\n')
        f.write(json.dumps(stats) + f'\n\nwall: {int(time.time()-t0)} s\n\n')
        f.write('| location | original line | mutated line | result |\n|---|---|---|---|\n')
        f.write('\n'.join(rows) + '\n')
    print(json.dumps(stats))
    sh(f'git -C /repo worktree remove --force {REPO}')
    shutil.rmtree(MU, ignore_errors=True)


main()
