#!/bin/sh
# usage: tools/verify_seeded.sh <worktree dir> <seeded name>
# Confirms a sub-agent's change in its scratch worktree (tests pass with it, demo fails with it, demo passes without),
# then copies patch.diff, demo/, meta.json to /verif/seeded/<name>/ and records what was run.
W="$1"; NAME="$2"
cd "$W" || exit 2
export CARGO_TARGET_DIR="$W/target" CARGO_NET_OFFLINE=true
git checkout -q -- . 2>/dev/null
[ -f patch.diff ] && [ -f demo/run.sh ] && [ -f meta.json ] || { echo "missing deliverables in $W"; exit 2; }
chmod +x demo/run.sh
bash demo/run.sh >/tmp/vs_demo_clean.log 2>&1; RC_CLEAN=$?
git apply patch.diff || { echo "patch does not apply"; exit 2; }
cargo test --offline --workspace >/tmp/vs_tests.log 2>&1; RC_TESTS=$?
NPASS=$(grep -E '^test result' /tmp/vs_tests.log | awk '{s+=$4} END{print s}')
bash demo/run.sh >/tmp/vs_demo_mut.log 2>&1; RC_MUT=$?
git checkout -q -- chiritori chiritori-cli; git clean -fdq chiritori chiritori-cli
echo "demo without change: exit $RC_CLEAN ; tests with change: exit $RC_TESTS ($NPASS passed) ; demo with change: exit $RC_MUT"
if [ $RC_CLEAN -eq 0 ] && [ $RC_TESTS -eq 0 ] && [ $RC_MUT -ne 0 ]; then
  mkdir -p /verif/seeded/$NAME; rm -rf /verif/seeded/$NAME/demo
  cp patch.diff /verif/seeded/$NAME/; cp -r demo /verif/seeded/$NAME/; 
  python3 - "$NAME" "$RC_CLEAN" "$RC_TESTS" "$NPASS" "$RC_MUT" <<'PY'
import json,sys
name,rc_clean,rc_tests,npass,rc_mut=sys.argv[1:]
m=json.load(open('meta.json'))
m['confirmed_by_me']={'worktree':'scratch git worktree of /repo HEAD under /tmp (removed afterwards)','repo_tests_with_change':f'cargo test --offline --workspace: exit {rc_tests}, {npass} tests passed','demo_with_change':f'demo/run.sh exit {rc_mut} (violation shown)','demo_without_change':f'demo/run.sh exit {rc_clean}'}
json.dump(m,open(f'/verif/seeded/{name}/meta.json','w'),indent=1,ensure_ascii=False)
PY
  echo "KEPT as /verif/seeded/$NAME"
else
  echo "NOT CONFIRMED"; tail -n 5 /tmp/vs_demo_clean.log; tail -n 5 /tmp/vs_demo_mut.log
fi
rm -rf "$W/target"
