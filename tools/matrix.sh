#!/bin/bash
# usage: tools/matrix.sh [names...]   — runs every quick check against every seeded change; writes seeded/MATRIX.md
cd /verif
OUT=/verif/seeded/MATRIX.md
ALL="C01 C02 C03 C04 C05 C06 C07 C08 C09 C10 C11 C12 C13 C14 C15 C16 C17 C18 C19 C20"
NAMES="$@"; [ -z "$NAMES" ] && NAMES=$(ls /verif/seeded | grep -v MATRIX | sort)
TMP=$(mktemp)
for n in $NAMES; do
  P=/verif/seeded/$n/patch.diff
  [ -f "$P" ] || continue
  if [ -n "$(git -C /repo status --porcelain --untracked-files=no)" ]; then echo "/repo dirty"; exit 2; fi
  git -C /repo apply "$P" || { echo "$n: patch does not apply"; continue; }
  CAUGHT=""; BROKEN=""
  for ID in $ALL; do
    OUTP=$(/verif/bin/check $ID quick 2>&1); RC=$?
    if [ $RC -eq 1 ]; then CAUGHT="$CAUGHT $ID"; elif [ $RC -ne 0 ]; then BROKEN="$BROKEN $ID(exit$RC)"; fi
  done
  git -C /repo checkout -- .
  echo "| $n | ${CAUGHT:- none} | ${BROKEN:--} |" | tee -a $TMP
done
{ echo "| seeded change | quick checks that report a violation | inconclusive |"; echo "|---|---|---|"; cat $TMP; } > $OUT.new
if [ -z "$@" ]; then mv $OUT.new $OUT; else cat $OUT.new; rm $OUT.new; fi
rm -f $TMP
# leave the build outputs matching the unchanged tree
/verif/bin/build cli >/dev/null 2>&1
