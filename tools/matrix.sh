#!/bin/bash
# usage: tools/matrix.sh [names...]
# Runs quick checks against every seeded change in a SCRATCH COPY (/tmp/mx: worktree of /repo + copy of /verif),
# so /repo and /verif stay untouched and usable meanwhile. Writes /verif/seeded/MATRIX.md when run without names.
# FULL=1: all 20 checks per change (slow); default: the change's own property and its neighbours.
set -u
MX=/tmp/mx
ALL="C01 C02 C03 C04 C05 C06 C07 C08 C09 C10 C11 C12 C13 C14 C15 C16 C17 C18 C19 C20"
NAMES="$@"; [ -z "$NAMES" ] && NAMES=$(ls /verif/seeded | grep -v MATRIX | sort)
git -C /repo worktree remove --force $MX/repo 2>/dev/null; rm -rf $MX; mkdir -p $MX
git -C /repo worktree add -q --detach $MX/repo HEAD || exit 2
rsync -a --exclude .build --exclude .git --exclude evidence/replays /verif/ $MX/verif/
sed -i "s#path = \"/repo/chiritori\"#path = \"$MX/repo/chiritori\"#" $MX/verif/harness/Cargo.toml
sed -i "s#^target-dir.*#target-dir = \"$MX/verif/.build/harness\"#" $MX/verif/harness/.cargo/config.toml
export VERIF_ROOT=$MX/verif REPO_ROOT=$MX/repo
TMP=$(mktemp)
for n in $NAMES; do
  P=/verif/seeded/$n/patch.diff
  [ -f "$P" ] || continue
  git -C $MX/repo checkout -q -- . ; git -C $MX/repo apply "$P" || { echo "| $n | patch does not apply | | |" | tee -a $TMP; continue; }
  OWN=${n%%-*}
  case $OWN in
    C07|C08) LIST="C07 C08 C01 C18";;
    C01) LIST="C01 C02 C03 C14";;
    C02|C03|C04|C14) LIST="C01 C02 C03 C04 C14 C19 C12";;
    C05) LIST="C05 C04 C03";;
    C06) LIST="C06 C03 C09";;
    C09) LIST="C09 C06";;
    C10) LIST="C10 C01 C03";;
    C11|C12|C13) LIST="C11 C12 C13 C14 C19";;
    C15|C16|C17) LIST="C15 C16 C17";;
    C18) LIST="C18 C08 C09";;
    C19) LIST="C19 C11 C03";;
    C20) LIST="C20 C06";;
    *) LIST="$ALL";;
  esac
  [ -n "${FULL:-}" ] && LIST="$ALL"
  CAUGHT=""; BROKEN=""
  for ID in $LIST; do
    OUTP=$($MX/verif/bin/check $ID quick 2>&1); RC=$?
    if [ $RC -eq 1 ]; then CAUGHT="$CAUGHT $ID"; elif [ $RC -ne 0 ]; then BROKEN="$BROKEN $ID(exit$RC)"; fi
  done
  echo "| $n | ${CAUGHT:- none} | $LIST | ${BROKEN:--} |" | tee -a $TMP
done
{ echo "| seeded change | quick checks that report a violation | quick checks run against it | inconclusive |"; echo "|---|---|---|---|"; cat $TMP; } > /tmp/MATRIX.new
if [ $# -eq 0 ]; then cp /tmp/MATRIX.new /verif/seeded/MATRIX.md; fi
cat /tmp/MATRIX.new; rm -f $TMP
git -C /repo worktree remove --force $MX/repo; rm -rf $MX
