#!/bin/bash
# usage: tools/matrix.sh [names...]   — runs every quick check against every seeded change; writes seeded/MATRIX.md
cd /verif
OUT=/verif/seeded/MATRIX.md
ALL="C01 C02 C03 C04 C05 C06 C07 C08 C09 C10 C11 C12 C13 C14 C15 C16 C17 C18 C19 C20"
NAMES="$@"; [ -z "$NAMES" ] && NAMES=$(ls /verif/seeded | grep -v MATRIX | sort)
TMP=$(mktemp)
for n in $NAMES; do
  P=/verif/seeded/$n/patch.diff
  [ -f "$P" ] || continue
  if [ -n "$(git -C /repo status --porcelain --untracked-files=no)" ]; then echo "/repo dirty"; exit 2; fi
  git -C /repo apply "$P" || { echo "$n: patch does not apply"; continue; }
  CAUGHT=""; BROKEN=""
  OWN=${n%%-*}
  case $OWN in
    C07|C08) LIST="C07 C08 C01 C18";;
    C01) LIST="C01 C02 C03 C14";;
    C02|C03|C04|C14) LIST="C01 C02 C03 C04 C14 C19 C12";;
    C05) LIST="C05 C04 C03";;
    C06) LIST="C06 C03 C09";;
    C09) LIST="C09 C06";;
    C10) LIST="C10 C01 C03";;
    C11|C12|C13) LIST="C11 C12 C13 C14 C19";;
    C15|C16|C17) LIST="C15 C16 C17";;
    C18) LIST="C18 C08 C09";;
    C19) LIST="C19 C11 C03";;
    C20) LIST="C20 C06";;
    *) LIST="$ALL";;
  esac
  [ -n "${FULL:-}" ] && LIST="$ALL"
  RAN="$LIST"
  for ID in $LIST; do
    OUTP=$(/verif/bin/check $ID quick 2>&1); RC=$?
    if [ $RC -eq 1 ]; then CAUGHT="$CAUGHT $ID"; elif [ $RC -ne 0 ]; then BROKEN="$BROKEN $ID(exit$RC)"; fi
  done
  git -C /repo checkout -- .
  echo "| $n | ${CAUGHT:- none} | $RAN | ${BROKEN:--} |" | tee -a $TMP
done
{ echo "| seeded change | quick checks that report a violation | quick checks run against it | inconclusive |"; echo "|---|---|---|---|"; cat $TMP; } > $OUT.new
if [ -z "$@" ]; then mv $OUT.new $OUT; else cat $OUT.new; rm $OUT.new; fi
rm -f $TMP
# leave the build outputs matching the unchanged tree
/verif/bin/build cli >/dev/null 2>&1
