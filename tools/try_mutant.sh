#!/bin/sh
# usage: tools/try_mutant.sh <patch.diff> <ID> [<ID>...]     (env TIER=quick|thorough, NOTEST=1 skips the repo test suite)
# Applies the patch to /repo, (optionally) runs the repo's tests, runs the given checks, and ALWAYS reverts /repo.
PATCH="$1"; shift
cd /repo || exit 2
if [ -n "$(git status --porcelain --untracked-files=no)" ]; then echo "/repo is dirty; refusing"; exit 2; fi
trap 'git -C /repo checkout -- . ; git -C /repo clean -fdq chiritori chiritori-cli 2>/dev/null; /verif/bin/build cli >/dev/null 2>&1' EXIT INT TERM
git apply "$PATCH" || { echo "patch does not apply"; exit 2; }
if [ -z "${NOTEST:-}" ]; then
  if cargo test --offline --workspace >/tmp/mutant_test.log 2>&1; then echo "repo-tests: pass"; else echo "repo-tests: FAIL (mutant not relevant)"; grep -E 'test result|panicked|FAILED' /tmp/mutant_test.log | head; fi
fi
for ID in "$@"; do
  OUT=$(/verif/bin/check "$ID" "${TIER:-quick}" 2>&1); RC=$?
  echo "check $ID -> exit $RC"
  echo "$OUT" | grep -E 'VIOLATION|violation in|INCONCLUSIVE|error' | head -5
done
