#!/usr/bin/env python3
"""Regenerates /verif/MANIFEST.json from the table below (kept valid at all times)."""
import json, sys

BUILT = json.load(open('/verif/tools/built.json'))

P = {
 "C01": dict(
  technique="bounded-exhaustive element-building atom strings (27 delimiter pairs) + random junk / AST / hostile-layout / mutated documents through clean, list, list_all x 2 formats (proptest-driven, shrinking, text minimisation), validity oracle (returns, Ok, JSON parses); process-abort isolation with breadcrumbs; libFuzzer target fz_total in the thorough tier",
  text="Exploration: every atom string up to a bound for 27 delimiter pairs (incl. hostile ones: space, line break, quote, letters) and random junk / structured / hostile-layout documents (shared tag lines, straddling children, text glued to tags, multi-byte words, CRLF) are pushed through all five entry points under random configurations, built with overflow checks; any panic, Err, unparsable JSON or abort of the process is a violation. Totality over an infinite input space cannot be proved by testing; the enumerated sub-space is complete.",
  note="Assumes non-empty delimiters (stated in the property). Chains of up to 2 500 simultaneously open tags / stray closers are asserted; the stack overflow beyond ~16 400 is known finding KF4. A hang is reported as inconclusive (watchdog), never as a violation.",
  ref="6/C01"),
 "C02": dict(
  technique="random AST documents (ground truth by construction) and junk/mutated documents (reference model R1-R5) compared with clean: deletion-only + every outside non-whitespace character present in order",
  text="Exploration with two independent oracles (construction and a naive reference model) over structured and junk documents, all delimiter spellings and independent readiness per element.",
  note="Documents whose tags fall outside the documented tag grammar, or whose ready unwrap-block tags share a line with code, are outside the oracle's domain and counted as excluded. A sub-check with hand-built documents (hundreds of never-closed tag-like tokens around ready elements; elements that miss readiness narrowly) is judged by the same reference model.",
  ref="6/C02"),
 "C03": dict(
  technique="same generated cases as C02; oracle nonws(out) == nonws(input minus removable extents) plus per-element #id markers that must vanish / survive",
  text="Exploration: equality of the non-whitespace text with the reference deletion, and direct absence of every ready element's marker, for nested/pending/skip/unregistered parents and unwrap bodies.",
  note="Same domain restrictions as C02.",
  ref="6/C03"),
 "C04": dict(
  technique="random AST/junk/whitespace-layout documents configured so that no element is ready; oracle clean(src) == src byte for byte and list is empty",
  text="Exploration over documents in which the reference evaluation finds no ready element, including pure junk and every whitespace layout up to a bound (exhaustive small layouts).",
  note="Reference evaluation R1-R4 decides 'nothing ready'; gray-zone dates/offsets are never generated.",
  ref="6/C04"),
 "C05": dict(
  technique="exhaustive grid (boundary instants x second deltas x 105 offsets x 2 spellings) and random instants against independent civil-time arithmetic; enumerated malformed classes; monotonicity as a metamorphic relation; CLI zone spellings",
  text="Exploration: the decision is compared with an independent days-from-civil computation on a complete grid around every boundary the property names, plus random instants; malformed classes enumerated.",
  note="chrono's lenient forms (single-digit fields, 2-digit years, second 60, other whitespace between date and time) are gray zones and never generated. Malformed `to` x malformed offset and 'a well-formed pair cut anywhere' are enumerated.",
  ref="6/C05"),
 "C06": dict(
  technique="exhaustive target sets (subsets <= 3 of an adversarial name pool) x probe elements x skip placements, random documents, and the CLI without target options; exact-membership oracle",
  text="Exploration with an exact set-membership oracle over near-miss names (prefix, superstring, case variants, option defaults) and all skip placements.",
  note="Duplicate name attributes are never generated. The CLI part covers no target option, repeated flags, and target config files (LF / CRLF, with / without final line break, alone and together with a flag).",
  ref="6/C06"),
 "C07": dict(
  technique="bounded-exhaustive atom strings (24 delimiter pairs) + random long strings (proptest tapes, shrinking) against the partition/offset invariants",
  text="Exploration: complete enumeration of all atom strings up to a per-pair bound plus random long strings; the oracle is the full list of invariants in the property (validity predicate).",
  note="Non-empty delimiters. The enumerated sub-space is complete; longer strings are sampled.",
  ref="6/C07"),
 "C08": dict(
  technique="differential against a textbook left-to-right scan (str::find) on bounded-exhaustive atom strings and random long strings",
  text="Exploration: tag spans from the tokenizer are compared with an obviously-correct reference scanner on every atom string up to a bound for delimiter pairs with and without self-overlap, plus random strings.",
  note="Reference scanner = leftmost start delimiter, one body character, first end delimiter after it.",
  ref="6/C08"),
 "C09": dict(
  technique="by-construction round-trip of grammar-generated tags (exhaustive <=2 attributes, random <=4) through tokenize+element_parser; metamorphic insertion of an opaque quoted attribute into documents",
  text="Exploration: tags are generated from the documented grammar with adversarial quoted values and separators; the parse must equal the generating AST; adding c=\"<adversarial>\" must not change any removal decision.",
  note="Unquoted values, duplicate keys, bodies touching delimiters, a line break between = and the quote are never generated (unspecified). The value pool includes values that end in backslashes.",
  ref="6/C09"),
 "C10": dict(
  technique="differential against a stack model on every tag sequence up to length 8/9 over {open a, open b, close a, close b, close z, text, open a with attribute}, a second enumeration (length 7/8) in which closing tags carry attribute-like content, plus random long sequences",
  text="Exploration: complete enumeration of interleavings up to a bound; pairs, depths and document order compared with a reference stack machine.",
  note="Tokenization is trusted here (C07/C08 cover it).",
  ref="6/C10"),
 "C11": dict(
  technique="grid-enumerated and random AST block documents with per-line ground truth by construction; expected surviving lines modulo indentation; line-for-line comparison (blank lines included) outside four named residue classes; structural shrinking",
  text="Exploration: unwrap elements with 0..6 body lines at every position; the surviving lines are known by construction.",
  note="Tags never sit on wrapper lines. The line-for-line assertion covers every document except four classes named by an input predicate: adjacent removed parts (known finding KF5), blank lines on both sides of an unwrap part (KF6), default-strategy removal between blank lines (C13 specifies it) and removed parts at the first / last line; there only the non-blank lines are compared.",
  ref="6/C11"),
 "C12": dict(
  technique="grid + random AST unwrap documents over three indentation units and nesting depth <= 3; by-construction expected indentation of every surviving inner line; second sub-check with inline elements inside bodies and children reaching into wrapper / tag lines (oracle over the text after removal, line by line)",
  text="Exploration with an exact by-construction oracle for the indentation of every surviving inner line.",
  note="Layouts with overlapping dedent ranges (inner tag left of outer column + outer dedent) or whose first inner line begins with a removed region are excluded as ambiguous and counted; whitespace-only inner lines are not asserted; known finding KF1 exempts the indentation of one line.",
  ref="6/C12"),
 "C13": dict(
  technique="exhaustive (b,a) in 0..4 x layout grid + random block documents; by-construction surviving lines and blank-line formula",
  text="Exploration: all small layouts enumerated, random larger ones; every surviving line and the blank-line count formula are checked exactly.",
  note="The formula is asserted only under the property's own precondition (single removed block between surviving non-blank lines).",
  ref="6/C13"),
 "C14": dict(
  technique="same cases as C02; every maximal kept stretch (trimmed) must occur verbatim and in order in the output, line by line inside unwrapped bodies; two more sub-checks take the removed ranges from the implementation's own markers so that layouts with undefined reference extents are covered too",
  text="Exploration on structured, inline, junk and mutated documents with the kept stretches computed from construction / the reference model.",
  note="Same domain restrictions as C02.",
  ref="6/C14"),
 "C15": dict(
  technique="random AST documents; by-construction expected Ready regions vs list (JSON line ranges, highlighted text of the pretty form), cross-checked against clean; purity by repeated calls",
  text="Exploration with by-construction regions; the listing is tied to what clean deletes via the non-whitespace text.",
  note="Domain as stated in the property (tags off wrapper lines, wrapper lines non-empty code, first byte not a line break). Extra sub-checks: long files (regions far down, on the last line with / without a final line break) and the process environment (NO_COLOR, TERM, LANG, TZ, ... set around repeated calls).",
  ref="6/C15"),
 "C16": dict(
  technique="rendering rule re-derived from the source for every item of list and list_all (line set, per-line numbers, fixed-width number column read off the output, tab expansion, marker columns with tab = 4), strict JSON shape, pretty-vs-JSON agreement after stripping SGR colour codes",
  text="Exploration: every item of every generated document (regions at any column, tabs left of / inside regions, single- and multi-line, pending and ready, first byte a line break) is checked against the rule stated in the property; JSON validity and exact key set; the pretty form must contain exactly the JSON blocks in order.",
  note="Text left of a marker is ASCII (the property's own restriction). Header wording, colours and the width of the number column are not fixed by the property and are not asserted.",
  ref="6/C16"),
 "C17": dict(
  technique="random AST documents with 0..4 pending siblings/children; by-construction expected (first,last,status) sequence vs list_all JSON and vs list",
  text="Exploration with an exact expected sequence computed from the generating tree.",
  note="Domain of C15.",
  ref="6/C17"),
 "C18": dict(
  technique="metamorphic: the same abstract document rendered under two spellings (all 306 ordered pairs of 18 delimiter spellings; 5 tag-name sets); outputs must be re-spellings of each other; documents include multi-line tags, tags sharing lines (also with unwrap-block tags) and a planted layout whose dedent column depends on a neighbouring tag's width",
  text="Exploration of a metamorphic relation over all ordered pairs of spellings x random documents.",
  note="Non-blank delimiter characters do not occur in the text; documents that do not reference-tokenize into the intended tags, or in which an unwrap-block part would cut a multi-line tag in two (half a tag cannot be re-spelled), are discarded and counted.",
  ref="6/C18"),
 "C19": dict(
  technique="stateful: histories of 1..4 cleaning steps (non-decreasing times / growing target sets) interpreted step by step with invariants after every step (idempotence, composition up to whitespace, nothing stranded)",
  text="Exploration of operation histories over random documents with all chains up to length 4.",
  note="Tags on / blank wrapper lines (KF3), foreign tags on an unwrap-block's own tag line (KF8) and text that a removal joins into a delimiter (KF9) are generated, excluded by input signature and counted as known findings. Unwrap-blocks whose tag lines are shared with code only are asserted through the relations between runs (their by-construction extents are undefined).",
  ref="6/C19"),
 "C20": dict(
  technique="differential: the chiritori binary (rebuilt from /repo) under generated option combinations, 10-11 runs per case over I/O paths (file/stdin x stdout/--output/in-place), long and short options, config file vs flags, explicit vs omitted defaults and 5 TZ/locale environments, compared byte for byte with the library result",
  text="Exploration: process-level differential testing across I/O variants, config-file vs flags, defaults and environment.",
  note="Arguments in --opt=value form; current time always given as RFC 3339 with offset. A separate sub-check runs all 105 quarter-hour offsets in both spellings at the expiry boundary (binary vs library).",
  ref="6/C20"),
}

REASON_UNBUILT = "check not built yet in this revision (work in progress; the design in DESIGN.md section %s applies)"

def main():
    checks=[]; na=[]
    for pid in sorted(P):
        d=P[pid]
        if pid in BUILT:
            checks.append({
              "property_id": pid,
              "quick_cmd": f"bin/check {pid} quick",
              "thorough_cmd": f"bin/check {pid} thorough",
              "evidence_file": f"/verif/evidence/{pid}.json",
              "replay_cmd_template": f"bin/replay {pid} {{path}}",
              "engine": "cv",
              "level_claimed": {"category":"exploration","text":d["text"],"design_ref":d["ref"]},
              "level_note": d["note"],
              "technique": d["technique"],
            })
        else:
            na.append({"property_id":pid,"reason":REASON_UNBUILT % d["ref"]})
    m={
     "version":1,
     "setup_cmd":"bin/setup",
     "hooks":{
        "guard":"chiritori_verif",
        "enable":"none needed: every module of the chiritori crate is public, the harness crate links /repo/chiritori as a path dependency and the CLI is driven as a process; no source file uses the guard",
        "baseline_off_cmd":"cd /repo && cargo test --workspace --no-fail-fast --offline",
        "source_commits":[],
        "add_only":True},
     "engines":[{"name":"cv","path":"/verif/harness","serves_properties":sorted(BUILT),"kind_free_text":"Rust harness: tape-driven generators, proptest TestRunner (fixed seed, sharded, shrinking), bounded-exhaustive enumerators, reference model, replay files, evidence writer"}],
     "checks":checks,
     "not_applicable":na,
     "notes":"All checks: bin/check <ID> <tier> rebuilds the harness against /repo's working tree (cargo path dependency), runs corpus replay + exhaustive + random tiers, writes evidence/<ID>.json, prints VIOLATION property=<ID> replay=<path> and exits 1 on a violation not listed in KNOWN_FINDINGS.txt; exit 2 = inconclusive (build failure, harness error). VERIF_SEED selects the PRNG stream.",
    }
    json.dump(m,open('/verif/MANIFEST.json','w'),indent=1)
    print("MANIFEST.json:",len(checks),"checks,",len(na),"not yet built")
main()
