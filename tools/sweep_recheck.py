#!/usr/bin/env python3
"""Re-run the survivors of tools/mutation_sweep.py against ALL quick checks (scratch copy /tmp/mu2).
usage: tools/sweep_recheck.py <sweep log or md> [--out FILE]"""
import re, sys, os, subprocess, shutil, json
sys.argv_backup = sys.argv[:]
src = open('/verif/tools/mutation_sweep.py').read().replace("\nmain()\n", "\n").replace("MU = '/tmp/mu'", "MU = '/tmp/mu2'")
ns = {}
exec(compile(src, 'ms', 'exec'), ns)
MU, REPO, VERIF, FILES, sh, gen_mutants = ns['MU'], ns['REPO'], ns['VERIF'], ns['FILES'], ns['sh'], ns['gen_mutants']
ALL = ["C%02d" % i for i in range(1, 21)]
log = open(sys.argv[1]).read()
out = '/verif/seeded/MUTATION_SURVIVORS.md'
if '--out' in sys.argv:
    out = sys.argv[sys.argv.index('--out') + 1]
surv = []
for line in log.split('\n'):
    if 'SURVIVED' in line or 'INCONCLUSIVE' in line:
        m = re.match(r'\| (\S+):(\d+) \| `(.*?)` \| `(.*?)` \| (SURVIVED|INCONCLUSIVE)(.*) \|', line)
        if m:
            surv.append((m.group(1), int(m.group(2)), m.group(3), m.group(4), m.group(6).split()))
print(len(surv), 'survivors')
sh(f'git -C /repo worktree remove --force {REPO}')
shutil.rmtree(MU, ignore_errors=True)
os.makedirs(MU)
rc, o = sh(f'git -C /repo worktree add -q --detach {REPO} HEAD'); assert rc == 0, o
sh(f'rsync -a --exclude .build --exclude .git --exclude evidence/replays /verif/ {VERIF}/')
sh(f"sed -i 's#path = \"/repo/chiritori\"#path = \"{REPO}/chiritori\"#' {VERIF}/harness/Cargo.toml")
sh(f"sed -i 's#^target-dir.*#target-dir = \"{VERIF}/.build/harness\"#' {VERIF}/harness/.cargo/config.toml")
env = {'VERIF_ROOT': VERIF, 'REPO_ROOT': REPO, 'CARGO_NET_OFFLINE': 'true'}
rows = []
for (path, lno, before, after, ran) in surv:
    srcf, muts = gen_mutants(path)
    cand = [m for m in muts if m[0] + 1 == lno and m[3][:90] == after]
    if not cand:
        rows.append(f'| {path}:{lno} | `{after}` | could not be regenerated |'); continue
    lines = srcf.split('\n'); lines[cand[0][0]] = cand[0][4]
    open(f'{REPO}/{path}', 'w').write('\n'.join(lines))
    caught = []
    for cid in ALL:
        if cid in ran:
            continue
        rc, o = sh(f'{VERIF}/bin/check {cid} quick', env=env, timeout=1500)
        if rc == 1 and 'VIOLATION' in o:
            caught.append(cid)
    open(f'{REPO}/{path}', 'w').write(srcf)
    row = f'| {path}:{lno} | `{before}` | `{after}` | {"caught by " + " ".join(caught) if caught else "survives all 20 quick checks"} |'
    rows.append(row); print(row, flush=True)
with open(out, 'w') as f:
    f.write('# Survivors of the operator-level sweep, re-run against all 20 quick checks\n\n| location | original | mutated | result |\n|---|---|---|---|\n' + '\n'.join(rows) + '\n')
sh(f'git -C /repo worktree remove --force {REPO}'); shutil.rmtree(MU, ignore_errors=True)
