#![no_main]
use libfuzzer_sys::fuzz_target;

fuzz_target!(|data: &[u8]| {
    cv::fuzzglue::run_target("total", data);
});
