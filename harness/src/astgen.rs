//! AST document generator: documents are built as trees, rendered to text under a spelling, and
//! the position of every tag is recorded, so the ground truth is known by construction.

use crate::engine::Tape;
use crate::pools::words_for;
use crate::refmodel::{Decision, MALFORMED_TO};
use crate::util::{epoch, Cfg};
use serde::{Deserialize, Serialize};

pub const TO_POOL: &[&str] = &["2001-01-01 00:00:00", "2003-01-01 00:00:00", "2005-01-01 00:00:00", "2999-01-01 00:00:00"];
pub const NAMES: &[&str] = &["a", "b", "c"];

/// instants: index j is after TO_POOL[i] iff j > i
pub fn now_pool(j: usize) -> i64 {
    [epoch(2000, 6, 1, 0, 0, 0), epoch(2002, 6, 1, 0, 0, 0), epoch(2004, 6, 1, 0, 0, 0), epoch(2006, 6, 1, 0, 0, 0), epoch(3000, 1, 1, 0, 0, 0)][j]
}

#[derive(Serialize, Deserialize, Clone, Hash, Debug, PartialEq, Eq)]
pub struct Spell {
    pub ds: String,
    pub de: String,
    pub tl: String,
    pub rm: String,
    pub unreg: String,
}

impl Spell {
    pub fn new(ds: &str, de: &str) -> Spell {
        Spell { ds: ds.into(), de: de.into(), tl: "tl".into(), rm: "rm".into(), unreg: "zz".into() }
    }
}

#[derive(Serialize, Deserialize, Clone, Hash, Debug, PartialEq, Eq)]
pub struct ACfg {
    pub now_idx: usize,
    /// bit i set: NAMES[i] is a target
    pub targets: u8,
}

impl ACfg {
    pub fn to_cfg(&self, sp: &Spell) -> Cfg {
        Cfg {
            ds: sp.ds.clone(),
            de: sp.de.clone(),
            tl_tag: sp.tl.clone(),
            rm_tag: sp.rm.clone(),
            now: now_pool(self.now_idx),
            offset: "+00:00".into(),
            targets: NAMES.iter().enumerate().filter(|(i, _)| self.targets & (1 << i) != 0).map(|(_, n)| n.to_string()).collect(),
        }
    }
}

#[derive(Serialize, Deserialize, Clone, Hash, Debug, PartialEq, Eq)]
pub enum Cond {
    Tl(usize),
    Rm(usize),
    Unreg,
    /// registered time-limited name with a malformed / missing / valueless `to`
    TlBad(usize),
    /// registered marker name without a usable `name`
    RmNoName(usize),
}

#[derive(Serialize, Deserialize, Clone, Hash, Debug, PartialEq, Eq)]
pub struct Elem {
    pub id: usize,
    pub cond: Cond,
    pub skip: bool,
    pub unwrap: bool,
    /// attribute order / quoting / padding variation
    pub style: usize,
}

#[derive(Serialize, Deserialize, Clone, Hash, Debug, PartialEq, Eq)]
pub enum Node {
    /// a whole line (indentation included); may be blank or whitespace-only
    Line(String),
    /// one line: pre + open tag + content + close tag + post
    Inline { pre: String, elem: Elem, content: String, post: String },
    /// one line with several sibling elements: pre + (open + content + close + after)*
    Row { pre: String, cells: Vec<(Elem, String, String)> },
    /// one line with a nested element: pre + open(outer) + a + open(inner) + b + close(inner) + c + close(outer) + post
    Nest { pre: String, outer: Elem, a: String, inner: Elem, b: String, c: String, post: String },
    /// open line = indent + open_lead + open tag + open_trail ; kids ; close line = close_indent + close_lead + close tag + close_trail
    Block { indent: String, open_lead: String, elem: Elem, open_trail: String, kids: Vec<Node>, close_indent: String, close_lead: String, close_trail: String },
    /// renders no line of its own: the first line of whatever comes next (the next node, or the closing-tag line of the
    /// enclosing block) continues the current line, separated by this text instead of a line break
    Join(String),
}

#[derive(Serialize, Deserialize, Clone, Hash, Debug, PartialEq, Eq)]
pub struct Doc {
    pub nodes: Vec<Node>,
    pub final_newline: bool,
    pub unit: String,
}

// ---- rendering ----------------------------------------------------------------------------------

#[derive(Clone, Debug)]
pub struct ElemInfo {
    pub id: usize,
    pub cond: Cond,
    pub skip: bool,
    pub unwrap: bool,
    pub open: (usize, usize),
    pub close: (usize, usize),
    /// 0-based line indices; `open_line` is the LAST line of the opening tag (the line whose successor is the opening
    /// wrapper line), `open_first_line` the line the tag begins on (they differ for tags that span several lines)
    pub open_line: usize,
    pub open_first_line: usize,
    pub close_line: usize,
    /// index (into Rendered::elems) of the enclosing element
    pub parent: Option<usize>,
    /// both tags stand alone on their lines (indentation only)
    pub tags_alone: bool,
    pub inline: bool,
}

#[derive(Clone, Debug)]
pub struct Rendered {
    pub src: String,
    /// byte span of each line, without its line break
    pub lines: Vec<(usize, usize)>,
    /// in document order of the opening tags
    pub elems: Vec<ElemInfo>,
}

pub fn open_tag(e: &Elem, sp: &Spell) -> String {
    let name = match e.cond {
        Cond::Tl(_) | Cond::TlBad(_) => &sp.tl,
        Cond::Rm(_) | Cond::RmNoName(_) => &sp.rm,
        Cond::Unreg => &sp.unreg,
    };
    let q = if e.style & 1 == 0 { '"' } else { '\'' };
    let mut attrs: Vec<String> = vec![];
    match &e.cond {
        Cond::Tl(i) => attrs.push(format!("to={q}{}{q}", TO_POOL[*i])),
        Cond::Rm(i) => attrs.push(format!("name={q}{}{q}", NAMES[*i])),
        Cond::Unreg => attrs.push(format!("name={q}a{q}")),
        Cond::TlBad(k) => match k % 3 {
            0 => {}
            1 => attrs.push("to".to_string()),
            _ => attrs.push(format!("to={q}{}{q}", MALFORMED_TO[(k / 3) % MALFORMED_TO.len()])),
        },
        Cond::RmNoName(k) => match k % 3 {
            0 => {}
            1 => attrs.push("name".to_string()),
            _ => attrs.push(format!("nam={q}a{q}")),
        },
    }
    if e.skip {
        attrs.push("skip".into());
    }
    if e.unwrap {
        attrs.push("unwrap-block".into());
    }
    attrs.push(format!("c={q}#{}#{q}", e.id));
    // an opaque attribute whose value contains the other quote character and tag keywords
    match (e.style >> 10) & 7 {
        6 => attrs.push("d=\"it's to skip name unwrap-block\"".to_string()),
        7 => attrs.push("d='say \"skip\" to=1 /tl unwrap-block'".to_string()),
        _ => {}
    }
    // order variation: rotate by style
    let rot = (e.style >> 1) % attrs.len();
    attrs.rotate_left(rot);
    let pad = if (e.style >> 4) & 3 == 3 { " " } else { "" };
    let sep = if (e.style >> 6) & 7 == 7 { "  " } else { " " };
    // bit 13: the tag spans several lines (the README's layout): every attribute on a continuation line of its own,
    // indented by 0 / 2 / 5 / 9 blanks (bits 14-15)
    let ml = (e.style >> 13) & 1 == 1;
    let cont = ["", "  ", "     ", "         "][(e.style >> 14) & 3];
    let mut s = String::new();
    s.push_str(&sp.ds);
    s.push_str(pad);
    s.push_str(name);
    for a in attrs {
        if ml {
            s.push('\n');
            s.push_str(cont);
        } else {
            s.push_str(sep);
        }
        s.push_str(&a);
    }
    s.push_str(pad);
    s.push_str(&sp.de);
    s
}

pub fn close_tag(e: &Elem, sp: &Spell) -> String {
    let name = match e.cond {
        Cond::Tl(_) | Cond::TlBad(_) => &sp.tl,
        Cond::Rm(_) | Cond::RmNoName(_) => &sp.rm,
        Cond::Unreg => &sp.unreg,
    };
    let pad = if (e.style >> 4) & 3 == 3 { " " } else { "" };
    // bits 16-17: the closing tag carries attribute-like content (the comment attribute; a trailing blank); it closes all the same
    let extra = ["", " c=\"end\"", " ", " c='/x' k"][(e.style >> 16) & 3];
    format!("{}{pad}/{name}{extra}{pad}{}", sp.ds, sp.de)
}

fn is_blank(s: &str) -> bool {
    s.chars().all(|c| c == ' ' || c == '\t')
}

pub fn render(doc: &Doc, sp: &Spell) -> Rendered {
    struct R<'a> {
        sp: &'a Spell,
        src: String,
        lines: Vec<(usize, usize)>,
        elems: Vec<ElemInfo>,
        join: Option<String>,
    }
    impl<'a> R<'a> {
        fn begin_line(&mut self) -> usize {
            if let Some(sep) = self.join.take() {
                if let Some((s, _)) = self.lines.pop() {
                    self.src.push_str(&sep);
                    return s;
                }
            }
            if !self.lines.is_empty() {
                self.src.push('\n');
            }
            self.src.len()
        }
        fn end_line(&mut self, start: usize) {
            self.lines.push((start, self.src.len()));
        }
        fn nodes(&mut self, ns: &[Node], parent: Option<usize>) {
            for n in ns {
                match n {
                    Node::Join(sep) => {
                        self.join = Some(sep.clone());
                    }
                    Node::Line(t) => {
                        let s = self.begin_line();
                        self.src.push_str(t);
                        self.end_line(s);
                    }
                    Node::Inline { pre, elem, content, post } => {
                        let s = self.begin_line();
                        self.src.push_str(pre);
                        let o0 = self.src.len();
                        self.src.push_str(&open_tag(elem, self.sp));
                        let o1 = self.src.len();
                        self.src.push_str(content);
                        let c0 = self.src.len();
                        self.src.push_str(&close_tag(elem, self.sp));
                        let c1 = self.src.len();
                        self.src.push_str(post);
                        let line = self.lines.len();
                        self.end_line(s);
                        self.elems.push(ElemInfo { id: elem.id, cond: elem.cond.clone(), skip: elem.skip, unwrap: elem.unwrap, open: (o0, o1), close: (c0, c1), open_line: line, open_first_line: line, close_line: line, parent, tags_alone: false, inline: true });
                    }
                    Node::Row { pre, cells } => {
                        let s = self.begin_line();
                        self.src.push_str(pre);
                        let line = self.lines.len();
                        for (elem, content, after) in cells {
                            let o0 = self.src.len();
                            self.src.push_str(&open_tag(elem, self.sp));
                            let o1 = self.src.len();
                            self.src.push_str(content);
                            let c0 = self.src.len();
                            self.src.push_str(&close_tag(elem, self.sp));
                            let c1 = self.src.len();
                            self.src.push_str(after);
                            self.elems.push(ElemInfo { id: elem.id, cond: elem.cond.clone(), skip: elem.skip, unwrap: elem.unwrap, open: (o0, o1), close: (c0, c1), open_line: line, open_first_line: line, close_line: line, parent, tags_alone: false, inline: true });
                        }
                        self.end_line(s);
                    }
                    Node::Nest { pre, outer, a, inner, b, c, post } => {
                        let s = self.begin_line();
                        self.src.push_str(pre);
                        let line = self.lines.len();
                        let o0 = self.src.len();
                        self.src.push_str(&open_tag(outer, self.sp));
                        let o1 = self.src.len();
                        self.src.push_str(a);
                        let i0 = self.src.len();
                        self.src.push_str(&open_tag(inner, self.sp));
                        let i1 = self.src.len();
                        self.src.push_str(b);
                        let j0 = self.src.len();
                        self.src.push_str(&close_tag(inner, self.sp));
                        let j1 = self.src.len();
                        self.src.push_str(c);
                        let c0 = self.src.len();
                        self.src.push_str(&close_tag(outer, self.sp));
                        let c1 = self.src.len();
                        self.src.push_str(post);
                        let oi = self.elems.len();
                        self.elems.push(ElemInfo { id: outer.id, cond: outer.cond.clone(), skip: outer.skip, unwrap: outer.unwrap, open: (o0, o1), close: (c0, c1), open_line: line, open_first_line: line, close_line: line, parent, tags_alone: false, inline: true });
                        self.elems.push(ElemInfo { id: inner.id, cond: inner.cond.clone(), skip: inner.skip, unwrap: inner.unwrap, open: (i0, i1), close: (j0, j1), open_line: line, open_first_line: line, close_line: line, parent: Some(oi), tags_alone: false, inline: true });
                        self.end_line(s);
                    }
                    Node::Block { indent, open_lead, elem, open_trail, kids, close_indent, close_lead, close_trail } => {
                        let mut s = self.begin_line();
                        self.src.push_str(indent);
                        self.src.push_str(open_lead);
                        let o0 = self.src.len();
                        let open_first_line = self.lines.len();
                        // a tag that spans several lines is several physical lines
                        let tag = open_tag(elem, self.sp);
                        let mut pieces = tag.split('\n');
                        self.src.push_str(pieces.next().unwrap_or(""));
                        for piece in pieces {
                            self.end_line(s);
                            s = self.begin_line();
                            self.src.push_str(piece);
                        }
                        let o1 = self.src.len();
                        self.src.push_str(open_trail);
                        let open_line = self.lines.len();
                        self.end_line(s);
                        let idx = self.elems.len();
                        self.elems.push(ElemInfo { id: elem.id, cond: elem.cond.clone(), skip: elem.skip, unwrap: elem.unwrap, open: (o0, o1), close: (0, 0), open_line, open_first_line, close_line: 0, parent, tags_alone: false, inline: false });
                        self.nodes(kids, Some(idx));
                        let s = self.begin_line();
                        self.src.push_str(close_indent);
                        self.src.push_str(close_lead);
                        let c0 = self.src.len();
                        self.src.push_str(&close_tag(elem, self.sp));
                        let c1 = self.src.len();
                        self.src.push_str(close_trail);
                        let close_line = self.lines.len();
                        self.end_line(s);
                        let e = &mut self.elems[idx];
                        e.close = (c0, c1);
                        e.close_line = close_line;
                        e.tags_alone = is_blank(open_lead) && is_blank(open_trail) && is_blank(close_lead) && is_blank(close_trail);
                    }
                }
            }
        }
    }
    let mut r = R { sp, src: String::new(), lines: vec![], elems: vec![], join: None };
    r.nodes(&doc.nodes, None);
    if doc.final_newline && !r.lines.is_empty() {
        r.src.push('\n');
    }
    // joined lines: "alone on its line" has to be read off the rendered lines
    for e in r.elems.iter_mut().filter(|e| !e.inline) {
        let os = r.lines[e.open_first_line].0;
        let oe = r.lines[e.open_line].1;
        let (cs, ce) = r.lines[e.close_line];
        e.tags_alone = e.open_line != e.close_line && is_blank(&r.src[os..e.open.0]) && is_blank(&r.src[e.open.1..oe]) && is_blank(&r.src[cs..e.close.0]) && is_blank(&r.src[e.close.1..ce]);
    }
    Rendered { src: r.src, lines: r.lines, elems: r.elems }
}

// ---- ground truth ----------------------------------------------------------------------------------

pub fn decision(e: &ElemInfo, cfg: &ACfg) -> Decision {
    match &e.cond {
        Cond::Unreg => Decision::Unregistered,
        _ if e.skip => Decision::Skip,
        Cond::Tl(i) => {
            if cfg.now_idx > *i {
                Decision::Ready
            } else {
                Decision::Pending
            }
        }
        Cond::Rm(i) => {
            if cfg.targets & (1 << i) != 0 {
                Decision::Ready
            } else {
                Decision::Pending
            }
        }
        Cond::TlBad(_) | Cond::RmNoName(_) => Decision::Pending,
    }
}

#[derive(Clone, Debug, PartialEq, Eq)]
pub enum Extent {
    /// default strategy: one range
    Whole((usize, usize)),
    /// unwrap-block: head and tail part
    Parts((usize, usize), (usize, usize)),
    /// unwrap-block that cannot be unwrapped (fewer than two lines between the tags / single line)
    None,
    /// unwrap-block whose tags share a line with code although it spans lines: outside C11's definition
    Undefined,
}

/// Removable extent of an element by construction (only line indices and recorded tag spans are used).
pub fn extent(r: &Rendered, e: &ElemInfo) -> Extent {
    if !e.unwrap {
        return Extent::Whole((e.open.0, e.close.1));
    }
    if e.inline || e.open_line == e.close_line {
        return Extent::None;
    }
    if !e.tags_alone {
        return Extent::Undefined;
    }
    let between = e.close_line - e.open_line - 1;
    if between < 2 {
        return Extent::None;
    }
    let head_end = r.lines[e.open_line + 1].1;
    let tail_start = r.lines[e.close_line - 1].0;
    Extent::Parts((e.open.0, head_end), (tail_start, e.close.1))
}

pub struct Truth {
    pub decisions: Vec<Decision>,
    pub extents: Vec<Extent>,
    pub keep: Vec<bool>,
    pub inbody: Vec<bool>,
    pub n_ready: usize,
    pub n_unwrapped: usize,
    pub undefined: bool,
}

pub fn truth(r: &Rendered, cfg: &ACfg) -> Truth {
    let decisions: Vec<Decision> = r.elems.iter().map(|e| decision(e, cfg)).collect();
    let extents: Vec<Extent> = r.elems.iter().map(|e| extent(r, e)).collect();
    let mut keep = vec![true; r.src.len()];
    let mut inbody = vec![false; r.src.len()];
    let (mut n_ready, mut n_unwrapped, mut undefined) = (0, 0, false);
    for (i, _e) in r.elems.iter().enumerate() {
        if decisions[i] != Decision::Ready {
            continue;
        }
        match &extents[i] {
            Extent::Whole((a, b)) => {
                n_ready += 1;
                for k in keep.iter_mut().take(*b).skip(*a) {
                    *k = false;
                }
            }
            Extent::Parts(h, t) => {
                n_ready += 1;
                n_unwrapped += 1;
                for k in keep.iter_mut().take(h.1).skip(h.0) {
                    *k = false;
                }
                for k in keep.iter_mut().take(t.1).skip(t.0) {
                    *k = false;
                }
                for b in inbody.iter_mut().take(t.0).skip(h.1) {
                    *b = true;
                }
            }
            Extent::None => {}
            Extent::Undefined => undefined = true,
        }
    }
    Truth { decisions, extents, keep, inbody, n_ready, n_unwrapped, undefined }
}

// ---- generation ------------------------------------------------------------------------------------

#[derive(Clone, Debug)]
pub struct Opts {
    pub delims: Vec<(&'static str, &'static str)>,
    /// inline elements and code sharing lines with block tags
    pub inline: bool,
    pub unwrap_pct: usize,
    /// unwrap-blocks among the inner lines of an unwrap-block
    pub nested_unwrap: bool,
    /// tags of other elements may sit on the wrapper lines of an unwrap-block
    pub tags_on_wrappers: bool,
    /// ready unwrap elements whose own tags share a line with code (outside C11; totality only)
    pub unwrap_tags_shared: bool,
    pub blank_wrappers: bool,
    pub blank_lines: bool,
    pub ws_only_lines: bool,
    pub ragged: bool,
    pub ragged_pct: usize,
    pub max_depth: usize,
    pub max_top: usize,
    pub units: Vec<&'static str>,
    pub first_line_empty_pct: usize,
    /// skip / unregistered / malformed-condition elements
    pub odd_conditions: bool,
    pub unique_lines: bool,
    pub tag_styles: bool,
    pub max_tag_indent_jitter: bool,
    /// (block-style documents) occasionally a whole unwrap-block element on a single line
    pub single_line_unwrap: bool,
    /// text that can end up left of a list marker (inline prefixes / contents, tag-line leads, wrapper lines) is ASCII
    pub ascii_left: bool,
    /// probability (percent) that a block tag shares its line with code
    pub shared_pct: usize,
    /// probability (percent, each) of the two straddling-child shapes in unwrap bodies
    pub straddle_pct: usize,
    /// probability (percent) that text follows a tag without a separating blank
    pub adjacent_pct: usize,
    /// probability (percent) that a word is replaced by a multi-byte one
    pub multibyte_pct: usize,
    /// probability (percent) that a wrapper line carries an inline element (needs tags_on_wrappers)
    pub wrapper_tag_pct: usize,
    /// probability (percent) that a wrapper line is blank (needs blank_wrappers)
    pub blank_wrapper_pct: usize,
    /// probability (percent) that a block element gets a neighbour / child whose tag stands on the block's own tag line
    /// (`<outer> <inner>` … , … `</inner> </outer>`), rendered with Join nodes
    pub join_pct: usize,
    /// probability (percent) that the opening tag of a block element spans several lines (one attribute per line)
    pub multiline_tag_pct: usize,
    /// probability (percent) that a closing tag carries attribute-like content (`</rm c="end">`)
    pub close_attr_pct: usize,
    /// probability (percent) that the file begins with a byte order mark (in front of a first line of plain code)
    pub bom_pct: usize,
}

impl Opts {
    pub fn base() -> Opts {
        Opts {
            delims: vec![("<", ">")],
            inline: false,
            unwrap_pct: 40,
            nested_unwrap: false,
            tags_on_wrappers: false,
            unwrap_tags_shared: false,
            blank_wrappers: false,
            blank_lines: true,
            ws_only_lines: true,
            ragged: true,
            ragged_pct: 25,
            max_depth: 3,
            max_top: 5,
            units: vec!["  ", "    ", "\t"],
            first_line_empty_pct: 5,
            join_pct: 0,
            multiline_tag_pct: 0,
            close_attr_pct: 0,
            bom_pct: 0,
            odd_conditions: true,
            unique_lines: true,
            tag_styles: true,
            max_tag_indent_jitter: true,
            single_line_unwrap: false,
            ascii_left: false,
            shared_pct: 20,
            straddle_pct: 10,
            adjacent_pct: 35,
            multibyte_pct: 0,
            wrapper_tag_pct: 25,
            blank_wrapper_pct: 15,
        }
    }
}

pub struct Gen<'a, 't> {
    pub t: &'a mut Tape<'t>,
    pub o: &'a Opts,
    pub words: Vec<&'static str>,
    pub bad: Vec<char>,
    pub unit: String,
    pub next_id: usize,
    pub next_line: usize,
}

impl<'a, 't> Gen<'a, 't> {
    fn word(&mut self) -> String {
        let mut w = self.t.s(&self.words).to_string();
        if self.o.multibyte_pct > 0 && self.t.chance(self.o.multibyte_pct) {
            let mb: Vec<&'static str> = self.words.iter().copied().filter(|x| !x.is_ascii()).collect();
            if !mb.is_empty() {
                w = self.t.s(&mb).to_string();
            }
        }
        if self.o.unique_lines && !self.t.chance(25) {
            self.next_line += 1;
            format!("{w} L{}", self.next_line)
        } else {
            w
        }
    }
    /// a word for positions left of a possible list marker
    fn word_left(&mut self) -> String {
        if !self.o.ascii_left {
            return self.word();
        }
        let ascii: Vec<&'static str> = self.words.iter().copied().filter(|w| w.is_ascii()).collect();
        let w = if ascii.is_empty() { "7".to_string() } else { self.t.s(&ascii).to_string() };
        if self.o.unique_lines && !self.t.chance(25) {
            self.next_line += 1;
            format!("{w} L{}", self.next_line)
        } else {
            w
        }
    }
    /// text placed directly after a tag: with or without a separating blank, possibly multi-byte
    fn after_tag(&mut self) -> String {
        let w = self.word();
        if self.t.chance(self.o.adjacent_pct) {
            w
        } else {
            format!(" {w}")
        }
    }
    fn indent(&mut self, level: usize) -> String {
        let mut l = level as isize;
        if self.o.ragged && self.t.chance(self.o.ragged_pct) {
            l += self.t.below(4) as isize - 1; // -1..2
        }
        self.unit.repeat(l.max(0) as usize)
    }
    fn code_line(&mut self, level: usize) -> Node {
        let ind = self.indent(level);
        let w = self.word();
        Node::Line(format!("{ind}{w}"))
    }
    fn blank_line(&mut self) -> Node {
        if self.o.ws_only_lines && self.t.chance(30) {
            Node::Line(self.t.s(&[" ", "  ", "\t", "   \t", "    "]).to_string())
        } else {
            Node::Line(String::new())
        }
    }
    fn elem(&mut self, unwrap_allowed: bool) -> Elem {
        self.next_id += 1;
        let id = self.next_id;
        let k = self.t.below(if self.o.odd_conditions { 20 } else { 12 });
        let (cond, skip) = match k {
            0..=5 => (Cond::Rm(self.t.below(NAMES.len())), false),
            6..=11 => (Cond::Tl(self.t.below(TO_POOL.len())), false),
            12..=13 => (if self.t.chance(50) { Cond::Rm(self.t.below(NAMES.len())) } else { Cond::Tl(self.t.below(TO_POOL.len())) }, true),
            14..=15 => (Cond::Unreg, self.t.chance(20)),
            16..=17 => (Cond::TlBad(self.t.below(3 * MALFORMED_TO.len())), false),
            _ => (Cond::RmNoName(self.t.below(3)), false),
        };
        let unwrap = unwrap_allowed && self.t.chance(self.o.unwrap_pct);
        let mut style = if self.o.tag_styles { self.t.below(8192) } else { 0 };
        if self.o.close_attr_pct > 0 && self.t.chance(self.o.close_attr_pct) {
            style |= (1 + self.t.below(3)) << 16;
        }
        Elem { id, cond, skip, unwrap, style }
    }
    fn inline_node(&mut self, level: usize) -> Node {
        let k = self.t.below(10);
        if k >= 8 {
            return self.row_or_nest(level, k == 9);
        }
        self.inline_single(level)
    }
    fn row_or_nest(&mut self, level: usize, nest: bool) -> Node {
        let ind = self.indent(level);
        let pre = if self.t.chance(60) { format!("{ind}{} ", self.word_left()) } else { ind };
        if nest {
            let mut outer = self.elem(false);
            outer.unwrap = false;
            let mut inner = self.elem(false);
            inner.unwrap = false;
            let a = if self.t.chance(60) { format!("{} ", self.word_left()) } else { String::new() };
            let b = if self.t.chance(60) { self.word_left() } else { String::new() };
            let c = if self.t.chance(60) { format!(" {}", self.word_left()) } else { String::new() };
            let post = if self.t.chance(50) { format!(" {}", self.word()) } else { String::new() };
            return Node::Nest { pre, outer, a, inner, b, c, post };
        }
        let n = 2 + self.t.below(2);
        let mut cells = vec![];
        for i in 0..n {
            let mut e = self.elem(false);
            e.unwrap = false;
            let content = if self.t.chance(70) { self.word_left() } else { String::new() };
            let after = if i + 1 < n {
                if self.t.chance(70) {
                    format!(" {} ", self.word_left())
                } else {
                    String::new()
                }
            } else if self.t.chance(50) {
                format!(" {}", self.word())
            } else {
                String::new()
            };
            cells.push((e, content, after));
        }
        Node::Row { pre, cells }
    }
    fn inline_single(&mut self, level: usize) -> Node {
        let ind = self.indent(level);
        let pre = if self.t.chance(70) {
            let w = self.word_left();
            if self.o.ascii_left && self.t.chance(25) {
                format!("{ind}{w}\t")
            } else {
                format!("{ind}{w} ")
            }
        } else {
            ind
        };
        let mut elem = self.elem(true);
        if elem.unwrap && !self.t.chance(30) {
            elem.unwrap = false;
        }
        let content = match self.t.below(5) {
            0 => String::new(),
            1 => format!(" {} ", self.word_left()),
            2 if self.o.ascii_left => format!("{}\t{}", self.word_left(), self.word_left()),
            _ => self.word_left(),
        };
        let post = if self.t.chance(60) { self.after_tag() } else { String::new() };
        Node::Inline { pre, elem, content, post }
    }

    pub fn nodes(&mut self, level: usize, depth_left: usize, n: usize, in_unwrap_body: bool) -> Vec<Node> {
        let mut v = vec![];
        for _ in 0..n {
            let k = self.t.below(20);
            match k {
                0..=7 => v.push(self.code_line(level)),
                8..=9 => {
                    if self.o.blank_lines {
                        v.push(self.blank_line())
                    } else {
                        v.push(self.code_line(level))
                    }
                }
                10..=11 => {
                    if self.o.inline && depth_left > 0 {
                        v.push(self.inline_node(level))
                    } else if self.o.single_line_unwrap && depth_left > 0 && self.t.chance(40) {
                        let mut n = self.inline_single(level);
                        if let Node::Inline { elem, .. } = &mut n {
                            elem.unwrap = true;
                        }
                        v.push(n)
                    } else {
                        v.push(self.code_line(level))
                    }
                }
                _ => {
                    if depth_left > 0 {
                        let unwrap_ok = !in_unwrap_body || self.o.nested_unwrap;
                        // the closing tag of the sibling above and this element's opening tag on one line (`</a> <b>`)
                        if self.o.join_pct > 0 && matches!(v.last(), Some(Node::Block { .. })) && self.t.chance(self.o.join_pct) {
                            v.push(Node::Join(self.t.s(&[" ", "", "  "]).to_string()));
                            let mut b = self.block(level, depth_left, unwrap_ok, in_unwrap_body);
                            if let Node::Block { indent, .. } = &mut b {
                                indent.clear();
                            }
                            v.push(b);
                            continue;
                        }
                        v.push(self.block(level, depth_left, unwrap_ok, in_unwrap_body))
                    } else {
                        v.push(self.code_line(level))
                    }
                }
            }
        }
        v
    }

    fn block(&mut self, level: usize, depth_left: usize, unwrap_ok: bool, in_unwrap_body: bool) -> Node {
        let mut elem = self.elem(unwrap_ok);
        if self.o.multiline_tag_pct > 0 && self.t.chance(self.o.multiline_tag_pct) {
            elem.style |= (1 << 13) | (self.t.below(4) << 14);
        }
        let mut tl = level as isize;
        if self.o.max_tag_indent_jitter && self.o.ragged && self.t.chance(20) {
            tl += self.t.below(3) as isize - 1;
        }
        let indent = self.unit.repeat(tl.max(0) as usize);
        let close_indent = if self.o.ragged && self.t.chance(12) { self.indent(level) } else { indent.clone() };
        let (mut open_lead, mut open_trail, mut close_lead, mut close_trail) = (String::new(), String::new(), String::new(), String::new());
        let shared_ok = self.o.inline && (!elem.unwrap || self.o.unwrap_tags_shared);
        if shared_ok && self.t.chance(self.o.shared_pct) {
            match self.t.below(4) {
                0 => open_lead = format!("{} ", self.word_left()),
                1 => open_trail = self.after_tag(),
                2 => close_lead = format!("{} ", self.word_left()),
                _ => close_trail = self.after_tag(),
            }
        } else if self.o.inline && self.t.chance(8) {
            // trailing blanks after a tag: still "alone on its line"
            open_trail = self.t.s(&[" ", "\t", "  "]).to_string();
        }
        let kids = if elem.unwrap {
            self.unwrap_kids(&indent, level, depth_left)
        } else {
            let n = self.t.below(5);
            self.nodes(level + 1, depth_left - 1, n, in_unwrap_body)
        };
        let mut kids = kids;
        if self.o.join_pct > 0 && depth_left > 0 && self.t.chance(self.o.join_pct) {
            let sep = self.t.s(&[" ", "", "  "]).to_string();
            let form = self.t.below(5);
            let small = |g: &mut Self| {
                let e = g.elem(false);
                let n = g.t.below(3);
                let inner = g.nodes(level + 1, depth_left.saturating_sub(1), n, true);
                Node::Block { indent: String::new(), open_lead: String::new(), elem: e, open_trail: String::new(), kids: inner, close_indent: g.unit.repeat(level), close_lead: String::new(), close_trail: String::new() }
            };
            match form {
                // a child that opens on this block's opening-tag line and closes before the rest of the body
                0 => {
                    let c = small(self);
                    kids.insert(0, c);
                    kids.insert(0, Node::Join(sep));
                }
                // a child that closes on this block's closing-tag line
                1 => {
                    let mut c = small(self);
                    if let Node::Block { indent: ci, .. } = &mut c {
                        *ci = self.unit.repeat(level + 1);
                    }
                    kids.push(c);
                    kids.push(Node::Join(sep));
                }
                // a child that opens on the opening-tag line and contains the first k nodes of the body
                2 => {
                    let k = self.t.below(kids.len() + 1);
                    let head: Vec<Node> = kids.drain(..k).collect();
                    let e = self.elem(false);
                    kids.insert(0, Node::Block { indent: String::new(), open_lead: String::new(), elem: e, open_trail: String::new(), kids: head, close_indent: self.unit.repeat(level), close_lead: String::new(), close_trail: String::new() });
                    kids.insert(0, Node::Join(sep));
                }
                // a child that contains the last nodes of the body and closes on the closing-tag line
                3 => {
                    let k = self.t.below(kids.len() + 1);
                    let tail: Vec<Node> = kids.drain(k..).collect();
                    let e = self.elem(false);
                    kids.push(Node::Block { indent: self.unit.repeat(level + 1), open_lead: String::new(), elem: e, open_trail: String::new(), kids: tail, close_indent: self.unit.repeat(level), close_lead: String::new(), close_trail: String::new() });
                    kids.push(Node::Join(sep));
                }
                // both tag lines shared with one child around the whole body
                _ => {
                    let body: Vec<Node> = kids.drain(..).collect();
                    let e = self.elem(self.o.unwrap_tags_shared);
                    kids.push(Node::Join(sep.clone()));
                    kids.push(Node::Block { indent: String::new(), open_lead: String::new(), elem: e, open_trail: String::new(), kids: body, close_indent: self.unit.repeat(level), close_lead: String::new(), close_trail: String::new() });
                    kids.push(Node::Join(sep));
                }
            }
        }
        Node::Block { indent, open_lead, elem, open_trail, kids, close_indent, close_lead, close_trail }
    }

    fn wrapper_line(&mut self, indent: &str, open: bool) -> Node {
        if self.o.blank_wrappers && self.t.chance(self.o.blank_wrapper_pct) {
            return self.blank_line();
        }
        let pool: &[&str] = if open { &["if (x) {", "{", "begin", "do", "try {", "loop:", "then"] } else { &["}", "end", "};", "done", "fi;", "until;"] };
        let ok: Vec<&str> = pool.iter().copied().filter(|w| !w.chars().any(|c| self.bad.contains(&c))).collect();
        let w: String = if ok.is_empty() { if open { "1:".to_string() } else { ";1".to_string() } } else { self.t.s(&ok).to_string() };
        if self.o.tags_on_wrappers && self.t.chance(self.o.wrapper_tag_pct) {
            let elem = self.elem(false);
            let content = if self.t.chance(50) { self.word() } else { String::new() };
            return if self.t.chance(50) {
                Node::Inline { pre: format!("{indent}{w} "), elem, content, post: String::new() }
            } else {
                Node::Inline { pre: indent.to_string(), elem, content, post: format!(" {w}") }
            };
        }
        // with ASCII-only text left of list markers, the LAST character of a wrapper line may still be multi-byte
        if self.o.ascii_left && self.t.chance(20) {
            let tail = self.t.s(&["é", "あ", "😀"]);
            if !tail.chars().any(|c| self.bad.contains(&c)) {
                return Node::Line(format!("{indent}{w}{tail}"));
            }
        }
        Node::Line(format!("{indent}{w}"))
    }

    fn unwrap_kids(&mut self, indent: &str, level: usize, depth_left: usize) -> Vec<Node> {
        let body = self.t.below(7); // nodes between the tags
        let mut kids = vec![];
        if body == 0 {
            return kids;
        }
        if self.o.tags_on_wrappers && body >= 2 && self.t.chance(self.o.straddle_pct) {
            // a block element spanning both wrapper lines: `{ <x>` ... `</x> }`
            let elem = self.elem(false);
            let n = self.t.below(3);
            let inner = self.nodes(level + 1, depth_left.saturating_sub(1), n, true);
            kids.push(Node::Block { indent: indent.to_string(), open_lead: "{ ".into(), elem, open_trail: String::new(), kids: inner, close_indent: indent.to_string(), close_lead: String::new(), close_trail: " }".into() });
            return kids;
        }
        if self.o.tags_on_wrappers && self.o.join_pct > 0 && body >= 2 && self.t.chance(self.o.straddle_pct / 2 + 1) {
            // both wrapper lines carry a straddling child, and the two children meet on ONE inner line:
            // `w <c1>` / … / `</c1> mid <c2>` / … / `</c2> w`
            let c1 = self.elem(false);
            let c2 = self.elem(false);
            let n1 = self.t.below(2);
            let in1 = self.nodes(level + 1, depth_left.saturating_sub(1), n1, true);
            let n2 = self.t.below(2);
            let in2 = self.nodes(level + 1, depth_left.saturating_sub(1), n2, true);
            let w1 = self.t.s(&self.words).to_string();
            let w2 = self.t.s(&self.words).to_string();
            let mid = if self.t.chance(70) { format!(" {} ", self.word()) } else { String::new() };
            kids.push(Node::Block { indent: indent.to_string(), open_lead: format!("{w1} "), elem: c1, open_trail: String::new(), kids: in1, close_indent: self.unit.repeat(level + 1), close_lead: String::new(), close_trail: mid });
            kids.push(Node::Join(String::new()));
            kids.push(Node::Block { indent: String::new(), open_lead: String::new(), elem: c2, open_trail: String::new(), kids: in2, close_indent: indent.to_string(), close_lead: String::new(), close_trail: format!(" {w2}") });
            return kids;
        }
        let straddle = if self.o.tags_on_wrappers && body >= 3 {
            let k = self.t.below(100);
            if k < self.o.straddle_pct {
                0
            } else if k < 2 * self.o.straddle_pct {
                1
            } else {
                9
            }
        } else {
            9
        };
        if straddle == 0 {
            // a block child whose opening tag sits on the opening wrapper line and which ends in the body
            let elem = self.elem(false);
            let n = self.t.below(3);
            let inner = self.nodes(level + 1, depth_left.saturating_sub(1), n, true);
            let w = self.t.s(&self.words).to_string();
            let close_trail = if self.t.chance(50) { self.after_tag() } else { String::new() };
            let close_lead = if self.t.chance(30) { format!("{} ", self.word()) } else { String::new() };
            kids.push(Node::Block { indent: indent.to_string(), open_lead: format!("{w} "), elem, open_trail: String::new(), kids: inner, close_indent: self.unit.repeat(level + 1), close_lead, close_trail });
        } else {
            kids.push(self.wrapper_line(indent, true));
        }
        if straddle == 1 {
            // a block child that starts in the body and whose closing tag sits on the closing wrapper line
            let elem = self.elem(false);
            let n = self.t.below(3);
            let inner = self.nodes(level + 1, depth_left.saturating_sub(1), n, true);
            let w = self.t.s(&self.words).to_string();
            let open_lead = if self.t.chance(50) { let x = self.word(); if self.t.chance(50) { x } else { format!("{x} ") } } else { String::new() };
            kids.push(Node::Block { indent: self.unit.repeat(level + 1), open_lead, elem, open_trail: String::new(), kids: inner, close_indent: indent.to_string(), close_lead: String::new(), close_trail: format!(" {w}") });
            return kids;
        }
        if body >= 3 {
            let extra = if self.o.ragged && self.t.chance(15) { self.t.below(3) } else { 1 };
            let inner = self.nodes(level + extra, depth_left - 1, body - 2, true);
            kids.extend(inner);
        }
        if body >= 2 {
            kids.push(self.wrapper_line(indent, false));
        }
        kids
    }
}

/// Generate (document, spelling) under `o`.
pub fn gen_doc(t: &mut Tape, o: &Opts) -> (Doc, Spell) {
    let (ds, de) = *t.pick(&o.delims);
    let sp = Spell::new(ds, de);
    let words = words_for(&[(ds, de)]);
    let bad = crate::pools::delim_chars(ds, de);
    let doc = gen_doc_with(t, o, words, bad);
    (doc, sp)
}

/// Generate a document whose text uses only `words` and avoids the characters in `bad`.
pub fn gen_doc_with(t: &mut Tape, o: &Opts, words: Vec<&'static str>, bad: Vec<char>) -> Doc {
    let unit = t.s(&o.units).to_string();
    let first_empty = t.chance(o.first_line_empty_pct);
    let n = 1 + t.below(o.max_top);
    let max_depth = o.max_depth;
    let base = if o.ragged { t.below(2) } else { 0 };
    let final_newline = !t.chance(30);
    let mut g = Gen { t, o, words, bad, unit: unit.clone(), next_id: 0, next_line: 0 };
    let mut nodes = vec![];
    if first_empty {
        nodes.push(Node::Line(String::new()));
    }
    nodes.extend(g.nodes(base, max_depth, n, false));
    // a byte order mark in front of a first line that is plain code (ordinary non-blank text for chiritori)
    if g.o.bom_pct > 0 && g.t.chance(g.o.bom_pct) {
        if let Some(Node::Line(l)) = nodes.first_mut() {
            if !l.trim().is_empty() {
                l.insert(0, '\u{feff}');
            }
        }
    }
    Doc { nodes, final_newline, unit }
}

/// A document that nests `k` block elements (conditions taken in turn from `conds`, unwrap-blocks get code wrapper lines)
/// around `inner`; ids 1..=k from the outside in, `inner` must use ids above k.
pub fn deep_doc(k: usize, conds: &[(Cond, bool)], unit: &str, inner: Vec<Node>) -> Doc {
    let mut nodes = inner;
    for level in (0..k).rev() {
        let (cond, unwrap) = conds[level % conds.len()].clone();
        let ind = unit.repeat(level.min(6));
        let elem = Elem { id: level + 1, cond, skip: false, unwrap, style: 0 };
        let mut kids = vec![];
        if unwrap {
            kids.push(Node::Line(format!("{ind}if (x{level}) {{")));
        }
        kids.push(Node::Line(format!("{ind}{unit}before{level}();")));
        kids.extend(nodes);
        kids.push(Node::Line(format!("{ind}{unit}after{level}();")));
        if unwrap {
            kids.push(Node::Line(format!("{ind}}}")));
        }
        nodes = vec![Node::Block { indent: ind.clone(), open_lead: String::new(), elem, open_trail: String::new(), kids, close_indent: ind, close_lead: String::new(), close_trail: String::new() }];
    }
    let mut all = vec![Node::Line("start();".into())];
    all.extend(nodes);
    all.push(Node::Line("end();".into()));
    Doc { nodes: all, final_newline: true, unit: unit.to_string() }
}

pub fn gen_acfg(t: &mut Tape) -> ACfg {
    ACfg { now_idx: t.below(5), targets: t.below(8) as u8 }
}

/// number of lines a node list renders to
pub fn count_lines(ns: &[Node]) -> usize {
    ns.iter()
        .map(|n| match n {
            Node::Line(_) | Node::Inline { .. } | Node::Row { .. } | Node::Nest { .. } => 1,
            Node::Join(_) => 0,
            Node::Block { kids, .. } => 2 + count_lines(kids),
        })
        .sum()
}


// ---- structural shrinking of documents (second pass after the tape shrink) ---------------------------------------

fn count_nodes(ns: &[Node]) -> usize {
    ns.iter().map(|n| 1 + if let Node::Block { kids, .. } = n { count_nodes(kids) } else { 0 }).sum()
}

/// apply `f` to the node with pre-order index `k`; returns the rewritten list
fn rewrite_at(ns: &[Node], k: &mut isize, f: &dyn Fn(&Node) -> Vec<Node>) -> Vec<Node> {
    let mut out = vec![];
    for n in ns {
        if *k == 0 {
            *k -= 1;
            out.extend(f(n));
            continue;
        }
        *k -= 1;
        match n {
            Node::Block { indent, open_lead, elem, open_trail, kids, close_indent, close_lead, close_trail } => {
                let kids2 = rewrite_at(kids, k, f);
                out.push(Node::Block { indent: indent.clone(), open_lead: open_lead.clone(), elem: elem.clone(), open_trail: open_trail.clone(), kids: kids2, close_indent: close_indent.clone(), close_lead: close_lead.clone(), close_trail: close_trail.clone() });
            }
            other => out.push(other.clone()),
        }
    }
    out
}

/// Smaller variants of a document: one node deleted, one block replaced by its children, an inline /
/// row / nest line replaced by a plain line, a block's shared-line text dropped.
pub fn shrink_candidates(doc: &Doc) -> Vec<Doc> {
    let n = count_nodes(&doc.nodes);
    let mut v = vec![];
    let mk = |nodes: Vec<Node>| Doc { nodes, final_newline: doc.final_newline, unit: doc.unit.clone() };
    for i in 0..n {
        let mut k = i as isize;
        v.push(mk(rewrite_at(&doc.nodes, &mut k, &|_| vec![])));
    }
    for i in 0..n {
        let mut k = i as isize;
        let mut changed = false;
        let nodes = rewrite_at(&doc.nodes, &mut k, &|n| match n {
            Node::Block { kids, .. } => kids.clone(),
            Node::Inline { pre, content, post, .. } => vec![Node::Line(format!("{pre}{content}{post}"))],
            Node::Row { pre, cells } => {
                if cells.len() > 1 {
                    vec![Node::Row { pre: pre.clone(), cells: cells[..cells.len() - 1].to_vec() }]
                } else {
                    vec![Node::Line(pre.clone())]
                }
            }
            Node::Nest { pre, outer, a, b, c, post, .. } => vec![Node::Inline { pre: pre.clone(), elem: outer.clone(), content: format!("{a}{b}{c}"), post: post.clone() }],
            other => vec![other.clone()],
        });
        if nodes != doc.nodes {
            changed = true;
        }
        if changed {
            v.push(mk(nodes));
        }
    }
    for i in 0..n {
        let mut k = i as isize;
        let nodes = rewrite_at(&doc.nodes, &mut k, &|n| match n {
            Node::Block { indent, elem, kids, close_indent, open_lead, open_trail, close_lead, close_trail } if !(open_lead.is_empty() && open_trail.is_empty() && close_lead.is_empty() && close_trail.is_empty()) => {
                vec![Node::Block { indent: indent.clone(), open_lead: String::new(), elem: elem.clone(), open_trail: String::new(), kids: kids.clone(), close_indent: close_indent.clone(), close_lead: String::new(), close_trail: String::new() }]
            }
            other => vec![other.clone()],
        });
        if nodes != doc.nodes {
            v.push(mk(nodes));
        }
    }
    if doc.final_newline {
        v.push(Doc { nodes: doc.nodes.clone(), final_newline: false, unit: doc.unit.clone() });
    }
    v
}

/// Greedy structural minimisation: keep applying the first candidate on which `fails` still holds.
pub fn minimize_doc<F: Fn(&Doc) -> bool>(doc: &Doc, fails: F) -> Doc {
    let mut cur = doc.clone();
    let mut budget = 3000usize;
    'outer: loop {
        for cand in shrink_candidates(&cur) {
            if budget == 0 {
                break 'outer;
            }
            budget -= 1;
            if fails(&cand) {
                cur = cand;
                continue 'outer;
            }
        }
        break;
    }
    cur
}


// ---- explicit domain predicate (the oracles must not rely on the generator alone: structural shrinking
// and hand-written corpus files can produce any document) -----------------------------------------------------------

#[derive(Clone, Debug)]
pub struct Domain {
    pub tags_on_wrappers: bool,
    pub blank_wrappers: bool,
    /// elements sharing lines with code / inline elements
    pub shared_lines: bool,
    /// single-line unwrap-block elements in otherwise block-style documents
    pub single_line_unwrap: bool,
    pub nested_unwrap: bool,
    pub unwrap_tags_shared: bool,
    pub first_byte_newline: bool,
    pub unwrap: bool,
}

pub fn in_domain(r: &Rendered, d: &Domain) -> Result<(), &'static str> {
    if !d.first_byte_newline && r.src.starts_with('\n') {
        return Err("domain:first-byte-is-line-break");
    }
    let line_text = |l: usize| &r.src[r.lines[l].0..r.lines[l].1];
    for (i, e) in r.elems.iter().enumerate() {
        if !d.unwrap && e.unwrap {
            return Err("domain:unwrap-block-attribute");
        }
        let single_line = e.open_line == e.close_line;
        if !d.shared_lines {
            let ok = if single_line { d.single_line_unwrap && e.unwrap } else { e.tags_alone };
            if !ok {
                return Err("domain:not-block-style");
            }
        }
        if !e.unwrap || single_line {
            continue;
        }
        if !e.tags_alone && !d.unwrap_tags_shared {
            return Err("domain:unwrap-tags-share-a-line");
        }
        let between = e.close_line - e.open_line - 1;
        if between >= 2 {
            for w in [e.open_line + 1, e.close_line - 1] {
                if !d.tags_on_wrappers && r.elems.iter().enumerate().any(|(k, o)| k != i && ((o.open_first_line..=o.open_line).contains(&w) || o.close_line == w)) {
                    return Err("domain:tag-on-wrapper-line");
                }
                if !d.blank_wrappers && line_text(w).chars().all(|c| c == ' ' || c == '\t') {
                    return Err("domain:blank-wrapper-line");
                }
            }
        } else if !d.tags_on_wrappers && between == 1 {
            let w = e.open_line + 1;
            if r.elems.iter().enumerate().any(|(k, o)| k != i && ((o.open_first_line..=o.open_line).contains(&w) || o.close_line == w)) {
                return Err("domain:tag-on-wrapper-line");
            }
        }
        if !d.nested_unwrap {
            let mut p = e.parent;
            while let Some(q) = p {
                if r.elems[q].unwrap && r.elems[q].open_line != r.elems[q].close_line {
                    return Err("domain:nested-unwrap");
                }
                p = r.elems[q].parent;
            }
        }
    }
    Ok(())
}

impl Opts {
    /// the domain the generator options promise
    pub fn domain(&self) -> Domain {
        Domain {
            tags_on_wrappers: self.tags_on_wrappers,
            blank_wrappers: self.blank_wrappers,
            shared_lines: self.inline,
            single_line_unwrap: self.single_line_unwrap,
            nested_unwrap: self.nested_unwrap,
            unwrap_tags_shared: self.unwrap_tags_shared,
            first_byte_newline: self.first_line_empty_pct > 0,
            unwrap: self.unwrap_pct > 0,
        }
    }
}
