//! Glue between libFuzzer targets and the oracles: the same decoding is used by the fuzz target
//! (abort on violation) and by the harness when it re-checks a crash artifact.

use crate::engine::{Obs, Stats, Verdict};
use crate::junkgen::{JunkCase, JUNK_DELIMS};
use crate::props::clean::{oracle_junk, Which};
use crate::props::tok::{all_pairs, oracle_c07, oracle_c08, TokCase};
use crate::util::{epoch, Cfg};
use serde_json::Value;
use std::sync::OnceLock;

/// property selected for this campaign (env CV_FUZZ_WHICH), e.g. "C07"
pub fn which() -> &'static str {
    static W: OnceLock<String> = OnceLock::new();
    W.get_or_init(|| std::env::var("CV_FUZZ_WHICH").unwrap_or_default())
}

fn cfg_from(sel: u8, ds: &str, de: &str) -> Cfg {
    let now = [epoch(2024, 6, 1, 0, 0, 0), epoch(2000, 6, 1, 0, 0, 0), epoch(3000, 1, 1, 0, 0, 0), epoch(2020, 1, 1, 0, 0, 0)][(sel & 3) as usize];
    let offset = ["+00:00", "+0900", "junk", ""][((sel >> 2) & 3) as usize];
    let targets: Vec<String> = match (sel >> 4) & 3 {
        0 => vec![],
        1 => vec!["a".into()],
        2 => vec!["a".into(), "b".into()],
        _ => vec!["A".into(), "".into(), "ab".into()],
    };
    Cfg { ds: ds.into(), de: de.into(), tl_tag: "tl".into(), rm_tag: "rm".into(), now, offset: offset.into(), targets }
}

/// Decode + run. Returns Some((sub-check name, case, message)) on a violation.
pub fn fuzz_one(target: &str, which: &str, data: &[u8]) -> Option<(String, Value, String)> {
    let mut st = Stats::new();
    let mut obs = Obs { st: &mut st, frozen: true };
    match target {
        "tokens" => {
            if data.is_empty() {
                return None;
            }
            let pairs = all_pairs(true);
            let (ds, de) = pairs[data[0] as usize % pairs.len()];
            let src = std::str::from_utf8(&data[1..]).ok()?;
            let c = TokCase { src: src.to_string(), ds: ds.into(), de: de.into() };
            let v = if which == "C08" { oracle_c08(&c, &mut obs, false) } else { oracle_c07(&c, &mut obs, false) };
            match v {
                Verdict::Fail(m) => Some(("long-strings".into(), serde_json::to_value(&c).unwrap(), m)),
                _ => None,
            }
        }
        "total" => {
            if data.len() < 2 {
                return None;
            }
            let pairs = all_pairs(true);
            let (ds, de) = pairs[data[0] as usize % pairs.len()];
            let src = std::str::from_utf8(&data[2..]).ok()?;
            let c = JunkCase { src: src.to_string(), cfg: cfg_from(data[1], ds, de) };
            match crate::props::c01::oracle(&c, &mut obs, false) {
                Verdict::Fail(m) => Some(("junk-soup".into(), serde_json::to_value(&c).unwrap(), m)),
                _ => None,
            }
        }
        "model" => {
            if data.len() < 2 {
                return None;
            }
            let (ds, de) = JUNK_DELIMS[data[0] as usize % JUNK_DELIMS.len()];
            let src = std::str::from_utf8(&data[2..]).ok()?;
            let mut cfg = cfg_from(data[1], ds, de);
            if cfg.offset == "junk" || cfg.offset.is_empty() {
                // keep these (they are in the malformed pool: never ready)
            }
            cfg.targets.retain(|t| !t.is_empty() || true);
            let c = JunkCase { src: src.to_string(), cfg };
            let w = match which {
                "C02" => Which::C02,
                "C03" => Which::C03,
                "C04" => Which::C04,
                _ => Which::C14,
            };
            match oracle_junk(&c, w, &mut obs) {
                Verdict::Fail(m) => Some(("junk-soup".into(), serde_json::to_value(&c).unwrap(), m)),
                _ => None,
            }
        }
        _ => None,
    }
}

/// Entry point of the libFuzzer targets.
pub fn run_target(target: &str, data: &[u8]) {
    static INIT: OnceLock<()> = OnceLock::new();
    INIT.get_or_init(|| {
        // libfuzzer-sys aborts on every panic; the oracles need catch_unwind to classify panics of the code under test
        crate::engine::install_recording_panic_hook();
    });
    if let Some((sub, _case, msg)) = fuzz_one(target, which(), data) {
        eprintln!("ORACLE-VIOLATION target={target} which={} sub={sub}: {msg}", which());
        std::process::abort();
    }
}

/// Encode a text case as a fuzz input (seed corpus).
pub fn encode(target: &str, pair_idx: u8, cfg_sel: u8, text: &str) -> Vec<u8> {
    let mut v = vec![pair_idx];
    if target != "tokens" {
        v.push(cfg_sel);
    }
    v.extend_from_slice(text.as_bytes());
    v
}
