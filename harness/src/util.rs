//! Shared helpers: configuration, calls into chiritori (panic-safe), text utilities, civil time.

use crate::engine::last_panic;
use chiritori::chiritori::{
    clean, list, list_all, ChiritoriConfiguration, ListFormat, RemovalMarkerConfiguration, TimeLimitedConfiguration,
};
use chrono::{Local, TimeZone};
use serde::{Deserialize, Serialize};
use std::collections::HashSet;
use std::rc::Rc;

#[derive(Serialize, Deserialize, Clone, Hash, Debug, PartialEq, Eq)]
pub struct Cfg {
    pub ds: String,
    pub de: String,
    pub tl_tag: String,
    pub rm_tag: String,
    /// current instant, seconds since the Unix epoch
    pub now: i64,
    pub offset: String,
    pub targets: Vec<String>,
}

impl Cfg {
    pub fn simple(ds: &str, de: &str) -> Cfg {
        Cfg {
            ds: ds.into(),
            de: de.into(),
            tl_tag: "tl".into(),
            rm_tag: "rm".into(),
            now: epoch(2024, 6, 1, 0, 0, 0),
            offset: "+00:00".into(),
            targets: vec!["a".into()],
        }
    }
    pub fn to_config(&self) -> ChiritoriConfiguration {
        ChiritoriConfiguration {
            time_limited_configuration: TimeLimitedConfiguration {
                tag_name: self.tl_tag.clone(),
                time_offset: self.offset.clone(),
                current: Local.timestamp_opt(self.now, 0).unwrap(),
            },
            removal_marker_configuration: RemovalMarkerConfiguration {
                tag_name: self.rm_tag.clone(),
                targets: self.targets.iter().cloned().collect::<HashSet<_>>(),
            },
        }
    }
    pub fn delims(&self) -> (String, String) {
        (self.ds.clone(), self.de.clone())
    }
}

fn guarded<T, F: FnOnce() -> T>(f: F) -> Result<T, String> {
    match std::panic::catch_unwind(std::panic::AssertUnwindSafe(f)) {
        Ok(v) => Ok(v),
        Err(p) => {
            let loc = last_panic();
            let m = crate::engine::panic_message(&p);
            Err(if loc.is_empty() { m } else { loc })
        }
    }
}

/// `clean`, Err(panic description) if the implementation panics.
pub fn call_clean(src: &str, cfg: &Cfg) -> Result<String, String> {
    guarded(|| clean(Rc::new(src.to_string()), cfg.delims(), cfg.to_config()))
}

/// `list` / `list_all` in JSON or pretty form; Err on panic or on an Err result.
pub fn call_list(src: &str, cfg: &Cfg, all: bool, json: bool) -> Result<String, String> {
    let fmt = if json { ListFormat::JSON } else { ListFormat::PrettyString };
    let r = guarded(|| {
        if all {
            list_all(Rc::new(src.to_string()), cfg.delims(), cfg.to_config(), fmt)
        } else {
            list(Rc::new(src.to_string()), cfg.delims(), cfg.to_config(), fmt)
        }
    })?;
    r.map_err(|e| format!("list returned Err: {e}"))
}

#[derive(Debug, Clone, PartialEq, Eq, Serialize, Deserialize)]
pub struct Item {
    pub first: u64,
    pub last: u64,
    pub ready: bool,
    pub block: String,
}

/// Parse the JSON list output strictly: array of objects with exactly the three documented keys.
pub fn parse_items(js: &str) -> Result<Vec<Item>, String> {
    let v: serde_json::Value = serde_json::from_str(js).map_err(|e| format!("list JSON does not parse: {e}"))?;
    let arr = v.as_array().ok_or("list JSON is not an array")?;
    let mut out = vec![];
    for it in arr {
        let o = it.as_object().ok_or("list item is not an object")?;
        let mut keys: Vec<&str> = o.keys().map(|k| k.as_str()).collect();
        keys.sort();
        if keys != ["annotated_code_block", "current_status", "line_range"] {
            return Err(format!("list item has keys {keys:?}"));
        }
        let lr = o["line_range"].as_array().ok_or("line_range is not an array")?;
        if lr.len() != 2 {
            return Err("line_range does not have two entries".into());
        }
        let first = lr[0].as_u64().ok_or("line_range[0] not an integer")?;
        let last = lr[1].as_u64().ok_or("line_range[1] not an integer")?;
        let st = o["current_status"].as_str().ok_or("current_status not a string")?;
        let ready = match st {
            "Ready" => true,
            "Pending" => false,
            other => return Err(format!("current_status is {other:?}")),
        };
        let block = o["annotated_code_block"].as_str().ok_or("annotated_code_block not a string")?.to_string();
        out.push(Item { first, last, ready, block });
    }
    Ok(out)
}

pub fn is_ws(c: char) -> bool {
    c == ' ' || c == '\t' || c == '\n'
}

pub fn nows(s: &str) -> String {
    s.chars().filter(|c| !is_ws(*c)).collect()
}

pub fn is_blank(s: &str) -> bool {
    s.chars().all(|c| c == ' ' || c == '\t')
}

pub fn lead(s: &str) -> usize {
    s.len() - s.trim_start_matches(|c| c == ' ' || c == '\t').len()
}

/// byte-wise subsequence test: `a` can be obtained from `b` by deleting bytes
pub fn is_subseq(a: &str, b: &str) -> bool {
    let mut it = b.bytes();
    a.bytes().all(|x| it.any(|y| y == x))
}

/// `out` is `src` with some byte ranges (on char boundaries, trivially true for valid UTF-8 results) deleted.
/// For strings, "deletion of byte ranges" == char-wise subsequence.
pub fn is_char_subseq(a: &str, b: &str) -> bool {
    let mut it = b.chars();
    a.chars().all(|x| it.any(|y| y == x))
}

pub fn strip_colors(s: &str) -> String {
    s.replace("\x1b[0m", "").replace("\x1b[31m", "").replace("\x1b[32m", "").replace("\x1b[33m", "")
}

// ---- civil time (independent of chrono) ------------------------------------------------------

pub fn days_from_civil(y: i64, m: u32, d: u32) -> i64 {
    let y = if m <= 2 { y - 1 } else { y };
    let era = if y >= 0 { y } else { y - 399 } / 400;
    let yoe = y - era * 400;
    let mp = (m as i64 + 9) % 12;
    let doy = (153 * mp + 2) / 5 + d as i64 - 1;
    let doe = yoe * 365 + yoe / 4 - yoe / 100 + doy;
    era * 146097 + doe - 719468
}

pub fn civil_from_days(z: i64) -> (i64, u32, u32) {
    let z = z + 719468;
    let era = if z >= 0 { z } else { z - 146096 } / 146097;
    let doe = z - era * 146097;
    let yoe = (doe - doe / 1460 + doe / 36524 - doe / 146096) / 365;
    let y = yoe + era * 400;
    let doy = doe - (365 * yoe + yoe / 4 - yoe / 100);
    let mp = (5 * doy + 2) / 153;
    let d = (doy - (153 * mp + 2) / 5 + 1) as u32;
    let m = if mp < 10 { mp + 3 } else { mp - 9 } as u32;
    (if m <= 2 { y + 1 } else { y }, m, d)
}

pub fn epoch(y: i64, mo: u32, d: u32, h: i64, mi: i64, s: i64) -> i64 {
    days_from_civil(y, mo, d) * 86400 + h * 3600 + mi * 60 + s
}

/// wall-clock text `YYYY-MM-DD HH:MM:SS` of instant `epoch` at UTC offset `ofs_secs`
pub fn wall(epoch: i64, ofs_secs: i64) -> String {
    let t = epoch + ofs_secs;
    let days = t.div_euclid(86400);
    let s = t.rem_euclid(86400);
    let (y, m, d) = civil_from_days(days);
    format!("{:04}-{:02}-{:02} {:02}:{:02}:{:02}", y, m, d, s / 3600, s % 3600 / 60, s % 60)
}

pub fn offset_text(ofs_secs: i64, colon: bool) -> String {
    let sign = if ofs_secs < 0 { '-' } else { '+' };
    let a = ofs_secs.abs();
    if colon {
        format!("{sign}{:02}:{:02}", a / 3600, a % 3600 / 60)
    } else {
        format!("{sign}{:02}{:02}", a / 3600, a % 3600 / 60)
    }
}

/// line number (1-based) of byte position p
pub fn line_of(src: &str, p: usize) -> usize {
    src.as_bytes()[..p].iter().filter(|b| **b == b'\n').count() + 1
}


// ---- the implementation's own removal markers (what clean deletes before tidying) -------------------------

/// (range, pair index) markers computed by chiritori itself for `src` under `cfg`; Err on panic.
pub fn impl_markers(src: &str, cfg: &Cfg) -> Result<Vec<(std::ops::Range<usize>, Option<usize>)>, String> {
    use chiritori::code::remover::marker::availability::{range_marker_availability::RangeMarkerAvailability, unwrap_block_marker_availability::UnwrapBlockMarkerAvailability};
    use chiritori::code::remover::marker::builder::{range_marker_builder::RangeMarkerBuilder, unwrap_block_marker_builder::UnwrapBlockMarkerBuilder};
    use chiritori::code::remover::marker::factory::RemoveStrategies;
    use chiritori::code::remover::removal_evaluator::{marker_evaluator::MarkerEvaluator, time_limited_evaluator::TimeLimitedEvaluator, RemovalEvaluator};
    use chiritori::code::remover::Remover;
    use std::collections::HashMap;
    guarded(|| {
        let content = Rc::new(src.to_string());
        let tokens = chiritori::tokenizer::tokenize(&content, &cfg.ds, &cfg.de);
        let parsed = chiritori::parser::parse(&tokens);
        let mut ev: HashMap<String, Box<dyn RemovalEvaluator>> = HashMap::new();
        ev.insert(cfg.tl_tag.clone(), Box::new(TimeLimitedEvaluator { current_time: Local.timestamp_opt(cfg.now, 0).unwrap(), time_offset: cfg.offset.clone() }));
        ev.insert(cfg.rm_tag.clone(), Box::new(MarkerEvaluator { marker_removal_names: cfg.targets.iter().cloned().collect::<HashSet<_>>() }));
        let strategies: RemoveStrategies = vec![
            (Box::new(UnwrapBlockMarkerAvailability::new("unwrap-block")), Box::new(UnwrapBlockMarkerBuilder { content: content.clone() })),
            (Box::new(RangeMarkerAvailability::default()), Box::new(RangeMarkerBuilder::default())),
        ];
        let remover = Remover::new(ev, strategies);
        remover.build_remove_marker(&parsed)
    })
}
