//! C07 (lossless partition) and C08 (leftmost-shortest recognition) on `tokenizer::tokenize`.

use crate::engine::*;
use crate::vfail;
use crate::pools::{HOSTILE_DELIMS, REGULAR_DELIMS};
use crate::refmodel::ref_tags;
use chiritori::tokenizer::{tokenize, TokenKind};
use serde::{Deserialize, Serialize};
use serde_json::{json, Value};

#[derive(Serialize, Deserialize, Clone, Hash, Debug)]
pub struct TokCase {
    pub src: String,
    pub ds: String,
    pub de: String,
}

#[derive(Clone, Debug)]
pub struct Tok {
    pub tag: bool,
    pub start: usize,
    pub end: usize,
    pub bstart: usize,
    pub bend: usize,
    pub value: String,
}

pub fn run_tokenize(c: &TokCase) -> Result<Vec<Tok>, String> {
    let r = std::panic::catch_unwind(|| {
        tokenize(&c.src, &c.ds, &c.de)
            .iter()
            .map(|t| Tok { tag: matches!(t.kind, TokenKind::Element(_)), start: t.start, end: t.end, bstart: t.byte_start, bend: t.byte_end, value: t.value.to_string() })
            .collect::<Vec<_>>()
    });
    r.map_err(|p| {
        let l = last_panic();
        if l.is_empty() {
            panic_message(&p)
        } else {
            l
        }
    })
}

/// Atom alphabet of a delimiter pair (section 4 of DESIGN.md).
pub fn atoms_for(ds: &str, de: &str) -> Vec<String> {
    let mut alpha: Vec<String> = vec![];
    let mut push = |s: String| {
        if !alpha.contains(&s) {
            alpha.push(s);
        }
    };
    for c in ds.chars().chain(de.chars()) {
        push(c.to_string());
    }
    for extra in ["x", " ", "\n", "é", "あ", "😀"] {
        push(extra.to_string());
    }
    if ds.chars().count() > 1 {
        push(ds.to_string());
    }
    if de.chars().count() > 1 {
        push(de.to_string());
    }
    alpha
}

/// Largest L with atoms^L <= budget (at least 3).
pub fn bound_for(n_atoms: usize, budget: u64) -> usize {
    let mut l = 0;
    let mut total: u64 = 1;
    while total.saturating_mul(n_atoms as u64) <= budget {
        total *= n_atoms as u64;
        l += 1;
    }
    l.max(3)
}

pub fn all_pairs(with_hostile: bool) -> Vec<(&'static str, &'static str)> {
    let mut v: Vec<(&str, &str)> = REGULAR_DELIMS.to_vec();
    if with_hostile {
        v.extend(HOSTILE_DELIMS.iter().copied());
    }
    v
}

/// Enumerate every atom string that starts with atom `first` and has at most `maxlen` atoms.
pub fn enumerate<F: FnMut(&str) -> bool>(atoms: &[String], first: usize, maxlen: usize, f: &mut F) -> bool {
    fn rec<F: FnMut(&str) -> bool>(atoms: &[String], buf: &mut String, len: usize, maxlen: usize, f: &mut F) -> bool {
        if !f(buf) {
            return false;
        }
        if len == maxlen {
            return true;
        }
        for a in atoms {
            let l = buf.len();
            buf.push_str(a);
            let go = rec(atoms, buf, len + 1, maxlen, f);
            buf.truncate(l);
            if !go {
                return false;
            }
        }
        true
    }
    let mut buf = String::new();
    buf.push_str(&atoms[first]);
    rec(atoms, &mut buf, 1, maxlen, f)
}

// ---- oracles -----------------------------------------------------------------------------------

pub fn oracle_c07(c: &TokCase, obs: &mut Obs, counted: bool) -> Verdict {
    let toks = match run_tokenize(c) {
        Ok(t) => t,
        Err(p) => vfail!("tokenize panicked: {p}"),
    };
    let s = &c.src;
    let nchars = s.chars().count();
    if s.is_empty() {
        if !toks.is_empty() {
            vfail!("empty source produced {} tokens", toks.len());
        }
        return Verdict::Pass;
    }
    if toks.is_empty() {
        vfail!("non-empty source produced no token");
    }
    let (mut pos, mut bpos) = (0usize, 0usize);
    let mut concat = String::new();
    for (i, t) in toks.iter().enumerate() {
        if t.start != pos || t.bstart != bpos {
            vfail!("token {i} starts at char {} / byte {} but the previous one ended at {pos} / {bpos}", t.start, t.bstart);
        }
        if t.end <= t.start || t.bend <= t.bstart {
            vfail!("token {i} is empty ({}..{}, bytes {}..{})", t.start, t.end, t.bstart, t.bend);
        }
        if t.bend > s.len() || !s.is_char_boundary(t.bstart) || !s.is_char_boundary(t.bend) {
            vfail!("token {i} byte offsets {}..{} are not character boundaries of a {}-byte source", t.bstart, t.bend, s.len());
        }
        if s[t.bstart..t.bend] != t.value {
            vfail!("token {i} value {:?} differs from source[{}..{}] = {:?}", t.value, t.bstart, t.bend, &s[t.bstart..t.bend]);
        }
        if s[t.bstart..t.bend].chars().count() != t.end - t.start {
            vfail!("token {i}: end-start = {} but the span has {} characters", t.end - t.start, s[t.bstart..t.bend].chars().count());
        }
        if t.tag && !(t.value.starts_with(c.ds.as_str()) && t.value.ends_with(c.de.as_str())) {
            vfail!("tag token {i} {:?} does not begin with the start and end with the end delimiter", t.value);
        }
        if i > 0 && !t.tag && !toks[i - 1].tag {
            vfail!("tokens {} and {i} are adjacent text tokens", i - 1);
        }
        concat.push_str(&t.value);
        pos = t.end;
        bpos = t.bend;
    }
    if pos != nchars || bpos != s.len() {
        vfail!("last token ends at char {pos} / byte {bpos}, source has {nchars} chars / {} bytes", s.len());
    }
    if &concat != s {
        vfail!("concatenated token texts differ from the source");
    }
    let multibyte = s.len() != nchars;
    if toks.len() >= 2 && multibyte {
        if s.chars().last().map(|c| c.len_utf8() > 1).unwrap_or(false) {
            obs.class("last-char-multibyte");
        }
        if counted {
            obs.nontrivial_counted(|| sample(c, &toks));
        } else {
            obs.nontrivial(c, || sample(c, &toks));
        }
    }
    if toks.iter().any(|t| t.tag) {
        obs.class("has-tag-token");
    }
    Verdict::Pass
}

fn sample(c: &TokCase, toks: &[Tok]) -> Value {
    json!({"src": c.src, "ds": c.ds, "de": c.de, "tokens": toks.iter().map(|t| json!([if t.tag {"tag"} else {"text"}, t.value])).collect::<Vec<_>>()})
}

/// C08 classification helpers
fn partial_failed(src: &str, d: &str) -> bool {
    // a position where the first character of d occurs but d does not occur in full
    let first = d.chars().next().unwrap();
    src.char_indices().any(|(i, ch)| ch == first && !src[i..].starts_with(d))
}

fn occurrence_inside_failed_partial(src: &str, d: &str) -> bool {
    let dl = d.len();
    for (p, _) in src.match_indices(d) {
        let lo = p.saturating_sub(dl - 1);
        for q in lo..p {
            if src.is_char_boundary(q) && !src[q..].starts_with(d) && d.starts_with(&src[q..p]) && q < p {
                return true;
            }
        }
    }
    false
}

pub fn oracle_c08(c: &TokCase, obs: &mut Obs, counted: bool) -> Verdict {
    let toks = match run_tokenize(c) {
        Ok(t) => t,
        Err(p) => vfail!("tokenize panicked: {p}"),
    };
    let got: Vec<(usize, usize)> = toks.iter().filter(|t| t.tag).map(|t| (t.bstart, t.bend)).collect();
    let exp = ref_tags(&c.src, &c.ds, &c.de);
    if got != exp {
        vfail!("tag spans (bytes) are {:?}, the left-to-right scan gives {:?}", got, exp);
    }
    // everything else is text: with C07's partition this means the tag tokens are exactly `exp`;
    // additionally check here that the text tokens tile the gaps (robust even if C07 is broken)
    let mut pos = 0;
    let mut gaps = vec![];
    for (s, e) in &exp {
        if *s > pos {
            gaps.push((pos, *s));
        }
        pos = *e;
    }
    if pos < c.src.len() {
        gaps.push((pos, c.src.len()));
    }
    let texts: Vec<(usize, usize)> = toks.iter().filter(|t| !t.tag).map(|t| (t.bstart, t.bend)).collect();
    if texts != gaps {
        vfail!("text spans are {:?}, expected the gaps between tags {:?}", texts, gaps);
    }
    let n_occ = c.src.matches(c.ds.as_str()).count() + c.src.matches(c.de.as_str()).count();
    let partial = partial_failed(&c.src, &c.ds) || partial_failed(&c.src, &c.de);
    if partial || n_occ >= 2 {
        if occurrence_inside_failed_partial(&c.src, &c.ds) || occurrence_inside_failed_partial(&c.src, &c.de) {
            obs.class("occurrence-begins-inside-failed-partial-match");
        }
        if !exp.is_empty() {
            obs.class("has-tag");
        }
        let mk = || json!({"src": c.src, "ds": c.ds, "de": c.de, "tags": exp.iter().map(|(s, e)| &c.src[*s..*e]).collect::<Vec<_>>()});
        if counted {
            obs.nontrivial_counted(mk);
        } else {
            obs.nontrivial(c, mk);
        }
    }
    Verdict::Pass
}

// ---- generators --------------------------------------------------------------------------------

pub const RANDOM_MIN_ATOMS: usize = 12;

/// Long random strings over delimiter-aware atoms.
pub fn gen_long(t: &mut Tape, with_hostile: bool) -> TokCase {
    let pairs = all_pairs(with_hostile);
    let (ds, de) = *t.pick(&pairs);
    let n = RANDOM_MIN_ATOMS + t.below(120);
    let mut src = String::new();
    let dsc: Vec<char> = ds.chars().collect();
    let dec: Vec<char> = de.chars().collect();
    for _ in 0..n {
        match t.below(16) {
            0 => src.push_str(t.s(&["x", "foo", "bar();", "rm name='a'", "/rm", "tl to='2020-01-01 00:00:00'"])),
            1 => src.push_str(ds),
            2 => src.push_str(de),
            3 => {
                let m = 1 + t.below(dsc.len());
                src.extend(dsc.iter().take(m));
            }
            4 => {
                let m = t.below(dec.len());
                src.extend(dec.iter().skip(m));
            }
            5 => {
                let m = 1 + t.below(dec.len());
                src.extend(dec.iter().take(m));
            }
            6 => {
                let m = t.below(dsc.len());
                src.extend(dsc.iter().skip(m));
            }
            7 => src.push(' '),
            8 => src.push('\n'),
            9 => src.push_str(t.s(&["é", "あ", "😀", "日本語", "ß", "\u{301}", "\u{2028}", "\u{feff}", "\u{10ffff}", "\u{a0}", "\u{200d}", "אב", "\u{0}"])),
            10 => {
                // a complete tag
                src.push_str(ds);
                src.push_str(t.s(&["rm name='a'", "/rm", "x", " ", "tl", "é"]));
                src.push_str(de);
            }
            11 => {
                // a single delimiter character
                let all: Vec<char> = dsc.iter().chain(dec.iter()).copied().collect();
                src.push(*t.pick(&all));
            }
            12 => src.push_str(t.s(&["\t", "\r\n", "=", "'", "\"", "/"])),
            _ => src.push_str(t.s(&["x", "y", "z", "1"])),
        }
    }
    TokCase { src, ds: ds.into(), de: de.into() }
}

// ---- checks ------------------------------------------------------------------------------------

fn exhaustive_units(with_hostile: bool, budget: u64) -> Vec<(String, String, Vec<String>, usize, usize)> {
    let mut units = vec![];
    for (ds, de) in all_pairs(with_hostile) {
        let atoms = atoms_for(ds, de);
        let l = bound_for(atoms.len(), budget);
        for first in 0..atoms.len() {
            units.push((ds.to_string(), de.to_string(), atoms.clone(), first, l));
        }
    }
    units
}

pub fn check(ctx: &mut Ctx, which: &'static str) {
    let is07 = which == "C07";
    if is07 {
        ctx.rule = "cases = (source, start delimiter, end delimiter). Exhaustive: every string of at most L atoms over {each delimiter character, the whole delimiters, 'x', space, line break, 2-/3-/4-byte character} for each of 27 delimiter pairs (18 regular + 9 hostile), L chosen per pair so that atoms^L stays within the tier budget; random: strings of 12..132 delimiter-aware atoms. Non-trivial = at least two tokens and at least one multi-byte character; enumerated cases are distinct by construction, random ones are de-duplicated by hash (they are longer than any enumerated string).".into();
    } else {
        ctx.rule = "cases as for C07 (same enumeration, 27 delimiter pairs incl. all pairs named in the property). Oracle: tag-token byte spans == spans of the textbook left-to-right scan (leftmost start delimiter, one body character, first end delimiter after it), text tokens == the gaps. Non-trivial = the string contains a failed partial delimiter match (first delimiter character not followed by the whole delimiter) or at least two delimiter occurrences.".into();
    }
    ctx.assume("start and end delimiter are non-empty (the property's own precondition)");
    ctx.require_class(if is07 { "last-char-multibyte" } else { "occurrence-begins-inside-failed-partial-match" });
    ctx.replay_corpus(|sub, case, obs| replay(which, sub, case, obs));
    let budget = ctx.tier.pick(6_000_000u64, 60_000_000u64);
    let units = exhaustive_units(true, budget);
    let desc = format!("all atom strings with atoms^L <= {budget} per delimiter pair, 27 pairs; L per pair: {}", {
        let mut v = vec![];
        for (ds, de) in all_pairs(true) {
            let a = atoms_for(ds, de);
            v.push(format!("{:?}/{:?}: {} atoms, L={}", ds, de, a.len(), bound_for(a.len(), budget)));
        }
        v.join("; ")
    });
    ctx.exhaustive("atom-strings", &desc, units, |(ds, de, atoms, first, l), obs| {
        let mut fail = None;
        let mut case = TokCase { src: String::new(), ds: ds.clone(), de: de.clone() };
        enumerate(atoms, *first, *l, &mut |s: &str| {
            case.src.clear();
            case.src.push_str(s);
            obs.eval();
            let v = if is07 { oracle_c07(&case, obs, true) } else { oracle_c08(&case, obs, true) };
            if v.is_fail() {
                let run = |c: &TokCase| {
                    let mut st = Stats::new();
                    let mut o = Obs { st: &mut st, frozen: true };
                    if is07 { oracle_c07(c, &mut o, true) } else { oracle_c08(c, &mut o, true) }
                };
                let min = minimize_text(&case.src, |s| run(&TokCase { src: s.to_string(), ds: case.ds.clone(), de: case.de.clone() }).is_fail());
                let mc = TokCase { src: min, ds: case.ds.clone(), de: case.de.clone() };
                if let Verdict::Fail(m) = run(&mc) {
                    fail = Some(fail_case("atom-strings", &mc, m));
                }
                return false;
            }
            true
        });
        fail
    });
    ctx.random(
        "long-strings",
        140,
        800_000,
        8_000_000,
        |t| gen_long(t, true),
        |c, obs| if is07 { oracle_c07(c, obs, false) } else { oracle_c08(c, obs, false) },
    );
    if !is07 {
        // second observation point: clean on documents whose tag is preceded / followed by delimiter fragments
        let mut cases = vec![];
        for (ds, de) in all_pairs(false) {
            let dsc: Vec<char> = ds.chars().collect();
            let dec: Vec<char> = de.chars().collect();
            let mut frags: Vec<String> = vec![String::new()];
            for k in 1..=dsc.len() {
                frags.push(dsc[..k].iter().collect());
            }
            for k in 1..=dec.len() {
                frags.push(dec[..k].iter().collect());
                frags.push(dec[dec.len() - k..].iter().collect());
            }
            frags.sort();
            frags.dedup();
            for f1 in &frags {
                for f2 in &frags {
                    for sep in ["", "x", " "] {
                        let src = format!("{f1}{sep}{ds}rm name='a'{de}{f2}X{f1}{ds}/rm{de}{sep}{f2}Y");
                        cases.push(crate::junkgen::JunkCase { src, cfg: crate::util::Cfg::simple(ds, de) });
                    }
                }
            }
        }
        let n = cases.len();
        let chunks: Vec<Vec<crate::junkgen::JunkCase>> = cases.chunks(200).map(|c| c.to_vec()).collect();
        ctx.exhaustive("clean-after-delimiter-fragments", &format!("{n} documents: a ready element whose tags are preceded / followed by every prefix and suffix of the delimiters, 18 delimiter pairs; clean must remove exactly what the textbook scan + reference model say"), chunks, |chunk, obs| {
            for c in chunk {
                obs.eval();
                match crate::props::clean::oracle_junk_mode(c, crate::props::clean::Which::C03, obs, true) {
                    Verdict::Fail(m) => return Some(fail_case("clean-after-delimiter-fragments", c, m)),
                    _ => {}
                }
            }
            None
        });
    }
    if ctx.tier == Tier::Thorough {
        let pairs = all_pairs(true);
        let mut seeds = vec![];
        for (i, t) in repo_seed_texts().iter().enumerate() {
            // fixtures use "/* <" "> */" (index 3) and the default pair (index 1)
            seeds.push(crate::fuzzglue::encode("tokens", if i % 2 == 0 { 3 } else { 1 }, 0, t));
        }
        for (i, (ds, de)) in pairs.iter().enumerate() {
            seeds.push(crate::fuzzglue::encode("tokens", i as u8, 0, &format!("x{ds}rm name='a'{de}é{ds}/rm{de}\n{ds}")));
        }
        ctx.fuzz_campaign("tokens", 300_000, 256, seeds, move |data| crate::fuzzglue::fuzz_one("tokens", which, data));
    }
}

pub fn replay(which: &str, sub: &str, case: &Value, obs: &mut Obs) -> Result<Verdict, String> {
    let is07 = which == "C07";
    if sub == "clean-after-delimiter-fragments" {
        return replay_case::<crate::junkgen::JunkCase, _>(case, obs, |c, obs| {
            obs.eval();
            crate::props::clean::oracle_junk_mode(c, crate::props::clean::Which::C03, obs, false)
        });
    }
    replay_case::<TokCase, _>(case, obs, |c, obs| {
        obs.eval();
        if is07 {
            oracle_c07(c, obs, false)
        } else {
            oracle_c08(c, obs, false)
        }
    })
}
