//! C02 (no over-removal), C03 (no under-removal), C04 (no-op identity), C14 (whitespace changes
//! confined to removal borders) — one family of generated cases, four oracles.

use crate::astgen::{self, ACfg, Cond, Doc, Extent, Node, Opts, Spell};
use crate::engine::*;
use crate::junkgen::{self, JunkCase};
use crate::refmodel::{self, Decision, Model};
use crate::util::*;
use crate::vfail;
use serde::{Deserialize, Serialize};
use serde_json::{json, Value};

#[derive(Clone, Copy, PartialEq, Eq, Debug)]
pub enum Which {
    C02,
    C03,
    C04,
    C14,
}

impl Which {
    pub fn from(id: &str) -> Which {
        match id {
            "C02" => Which::C02,
            "C03" => Which::C03,
            "C04" => Which::C04,
            _ => Which::C14,
        }
    }
}

#[derive(Serialize, Deserialize, Clone, Hash, Debug)]
pub struct AstCase {
    pub doc: Doc,
    pub spell: Spell,
    pub cfg: ACfg,
}

// ---- common assertions ---------------------------------------------------------------------------------

fn show(src: &str, out: &str) -> String {
    format!("\n  src = {:?}\n  out = {:?}", truncate(src, 1500), truncate(out, 1500))
}

/// C02: deletion only, and every kept non-whitespace character present in order.
fn assert_c02(src: &str, keep: &[bool], out: &str) -> Result<(), String> {
    if !is_char_subseq(out, src) {
        return Err(format!("the output is not the input with ranges taken out (not a subsequence){}", show(src, out)));
    }
    let kept = nows(&refmodel::kept_text(src, keep));
    let o = nows(out);
    if !is_char_subseq(&kept, &o) {
        // find first missing char for the message
        let mut it = o.chars();
        let mut missing = None;
        for (i, c) in kept.chars().enumerate() {
            if !it.any(|y| y == c) {
                missing = Some((i, c));
                break;
            }
        }
        return Err(format!("a non-whitespace character outside every removable extent is missing from the output (first missing: {:?}){}", missing, show(src, out)));
    }
    Ok(())
}

/// C03: the non-whitespace text of the output equals that of the input minus the removable extents.
fn assert_c03(src: &str, keep: &[bool], out: &str) -> Result<(), String> {
    let kept = nows(&refmodel::kept_text(src, keep));
    let o = nows(out);
    if o != kept {
        let common = o.chars().zip(kept.chars()).take_while(|(a, b)| a == b).count();
        let o_rest: String = o.chars().skip(common).take(60).collect();
        let k_rest: String = kept.chars().skip(common).take(60).collect();
        return Err(format!("non-whitespace text of the output differs from input minus removable extents; after {common} equal characters the output continues {o_rest:?}, expected {k_rest:?}{}", show(src, out)));
    }
    Ok(())
}

/// C14: every maximal kept stretch (trimmed) occurs verbatim and in order; line by line inside unwrapped bodies.
fn assert_c14(src: &str, keep: &[bool], inbody: &[bool], out: &str) -> Result<usize, String> {
    let b = src.as_bytes();
    let mut pos = 0usize;
    let mut i = 0;
    let mut interesting = 0;
    while i < b.len() {
        if !keep[i] {
            i += 1;
            continue;
        }
        let st = i;
        while i < b.len() && keep[i] {
            i += 1;
        }
        let run = &src[st..i];
        let pieces: Vec<&str> = if inbody[st] { run.split('\n').collect() } else { vec![run] };
        for pc in pieces {
            let t = pc.trim_matches(is_ws);
            if t.is_empty() {
                continue;
            }
            if t.contains('\n') || t.contains("  ") || t.contains('\t') {
                interesting += 1;
            }
            match out[pos..].find(t) {
                Some(p) => pos += p + t.len(),
                None => {
                    return Err(format!("kept stretch {:?} does not occur verbatim (in order) in the output{}", truncate(t, 300), show(src, out)));
                }
            }
        }
    }
    Ok(interesting)
}

// ---- AST documents ---------------------------------------------------------------------------------------

pub fn ast_opts(which: Which) -> Opts {
    let mut o = Opts::base();
    o.delims = junkgen::all_regular();
    o.inline = true;
    o.nested_unwrap = true;
    o.tags_on_wrappers = true;
    o.blank_wrappers = true;
    o.first_line_empty_pct = 5;
    // opening tags of block elements that span several lines (the README's layout)
    o.multiline_tag_pct = 12;
    o.close_attr_pct = 10;
    o.bom_pct = 4;
    if which == Which::C04 {
        o.unwrap_tags_shared = true;
    }
    o
}

/// denser layouts: more shared tag lines, straddling children, text glued to tags, multi-byte words
pub fn dense_opts(which: Which) -> Opts {
    let mut o = ast_opts(which);
    o.shared_pct = 45;
    o.straddle_pct = 25;
    o.adjacent_pct = 55;
    o.multibyte_pct = 35;
    o.unwrap_pct = 55;
    o.max_top = 3;
    // neighbours / children whose tag stands on a block's own tag line (`<a> <b>` … `</b> </a>`)
    o.join_pct = 12;
    o
}

pub fn gen_ast_dense(t: &mut Tape, which: Which) -> AstCase {
    let o = dense_opts(which);
    let (mut doc, spell) = astgen::gen_doc(t, &o);
    let mut cfg = astgen::gen_acfg(t);
    if which != Which::C04 && t.chance(60) {
        cfg.now_idx = 4;
        cfg.targets = 7;
    }
    if which == Which::C04 {
        neutralize(&mut doc, &spell, &cfg, t);
    }
    AstCase { doc, spell, cfg }
}

pub fn gen_ast(t: &mut Tape, which: Which) -> AstCase {
    let o = ast_opts(which);
    let (mut doc, spell) = astgen::gen_doc(t, &o);
    let cfg = astgen::gen_acfg(t);
    if which == Which::C04 {
        neutralize(&mut doc, &spell, &cfg, t);
    }
    AstCase { doc, spell, cfg }
}

/// C04: make every ready element not ready (skip / unregistered / malformed condition), keeping
/// elements that are "ready by condition" but cannot be unwrapped.
fn neutralize(doc: &mut Doc, sp: &Spell, cfg: &ACfg, t: &mut Tape) {
    loop {
        let r = astgen::render(doc, sp);
        let tr = astgen::truth(&r, cfg);
        let mut target: Option<usize> = None;
        for (i, e) in r.elems.iter().enumerate() {
            if tr.decisions[i] == Decision::Ready && !matches!(tr.extents[i], Extent::None) {
                target = Some(e.id);
                break;
            }
        }
        let Some(id) = target else { break };
        let mode = t.below(4);
        fn walk(ns: &mut [Node], id: usize, mode: usize) {
            for n in ns {
                match n {
                    Node::Line(_) | Node::Join(_) => {}
                    Node::Inline { elem, .. } => {
                        if elem.id == id {
                            fix(elem, mode)
                        }
                    }
                    Node::Row { cells, .. } => {
                        for (elem, _, _) in cells {
                            if elem.id == id {
                                fix(elem, mode)
                            }
                        }
                    }
                    Node::Nest { outer, inner, .. } => {
                        if outer.id == id {
                            fix(outer, mode)
                        }
                        if inner.id == id {
                            fix(inner, mode)
                        }
                    }
                    Node::Block { elem, kids, .. } => {
                        if elem.id == id {
                            fix(elem, mode)
                        }
                        walk(kids, id, mode);
                    }
                }
            }
        }
        fn fix(e: &mut astgen::Elem, mode: usize) {
            match mode {
                0 => e.skip = true,
                1 => e.cond = Cond::Unreg,
                2 => {
                    e.cond = match e.cond {
                        Cond::Tl(i) => Cond::TlBad(i * 7 + 2),
                        Cond::Rm(i) => Cond::RmNoName(i),
                        _ => Cond::Unreg,
                    }
                }
                _ => {
                    e.cond = match e.cond {
                        Cond::Tl(_) => Cond::Tl(3),
                        _ => Cond::Unreg,
                    };
                    e.skip = true;
                }
            }
        }
        walk(&mut doc.nodes, id, mode);
    }
}

pub fn oracle_ast(c: &AstCase, which: Which, obs: &mut Obs) -> Verdict {
    let r = astgen::render(&c.doc, &c.spell);
    let cfg = c.cfg.to_cfg(&c.spell);
    let tr = astgen::truth(&r, &c.cfg);
    if tr.undefined && which != Which::C04 {
        obs.excluded("ready-unwrap-with-shared-tag-lines");
        return Verdict::Pass;
    }
    // intended tags must be what the reference tokenizer sees
    let tags = refmodel::ref_tags(&r.src, &c.spell.ds, &c.spell.de);
    if tags.len() != 2 * r.elems.len() {
        obs.excluded("rendering-does-not-tokenize-as-intended");
        return Verdict::Pass;
    }
    if r.elems.iter().enumerate().any(|(i, e)| e.open_first_line != e.open_line && tr.decisions[i] == Decision::Ready) {
        obs.class("ready-element-with-multi-line-opening-tag");
    }
    // oracle self-check: construction vs reference model
    match refmodel::model(&r.src, &cfg) {
        Model::OutOfDomain(w) => return Verdict::Broken(format!("reference model rejects a generated AST document ({w}): {:?}", r.src)),
        Model::Ok(els) => {
            if which == Which::C04 && tr.undefined {
                // R5 has no extents for these; by construction nothing else is ready
            } else {
                match refmodel::extents(&r.src, &els) {
                    Err(w) => return Verdict::Broken(format!("reference extents undefined ({w}) for a generated AST document: {:?}", r.src)),
                    Ok(ex) => {
                        if ex.keep != tr.keep {
                            return Verdict::Broken(format!("construction and reference model disagree on removable extents for {:?}", r.src));
                        }
                    }
                }
            }
        }
    }
    let out = match call_clean(&r.src, &cfg) {
        Ok(o) => o,
        Err(p) => vfail!("clean panicked: {p}\n  src = {:?}", r.src),
    };
    let any_ready = tr.n_ready > 0;
    obs.max("elements", r.elems.len() as u64);
    obs.max("source-bytes", r.src.len() as u64);
    let depth_of = |i: usize| {
        let mut d = 0;
        let mut p = r.elems[i].parent;
        while let Some(q) = p {
            d += 1;
            p = r.elems[q].parent;
        }
        d
    };
    match which {
        Which::C04 => {
            if any_ready {
                return Verdict::Broken("C04 generator produced a ready element".into());
            }
            if out != r.src {
                vfail!("nothing is ready but clean changed the text{}", show(&r.src, &out));
            }
            match call_list(&r.src, &cfg, false, true) {
                Ok(js) => match parse_items(&js) {
                    Ok(items) => {
                        if !items.is_empty() {
                            vfail!("nothing is ready but list reports {} item(s){}", items.len(), show(&r.src, &js));
                        }
                    }
                    Err(e) => vfail!("{e}"),
                },
                Err(p) => vfail!("list failed: {p}\n  src = {:?}", r.src),
            }
            // the same document with CRLF line ends (only when no tag spans several lines: CR is not an attribute separator):
            // still nothing is ready - an unwrap-block that cannot be unwrapped has as few LINES between its tags as before
            if r.elems.iter().all(|e| e.open_first_line == e.open_line) && r.src.contains('\n') {
                let crlf = r.src.replace('\n', "\r\n");
                match call_clean(&crlf, &cfg) {
                    Ok(o) if o == crlf => {}
                    Ok(o) => vfail!("nothing is ready but clean changed the CRLF version of the text{}", show(&crlf, &o)),
                    Err(p) => vfail!("clean panicked on the CRLF version: {p}\n  src = {:?}", crlf),
                }
                match call_list(&crlf, &cfg, false, true).and_then(|js| parse_items(&js)) {
                    Ok(items) if items.is_empty() => {}
                    Ok(items) => vfail!("nothing is ready but list reports {} item(s) for the CRLF version\n  src = {:?}", items.len(), crlf),
                    Err(e) => vfail!("list failed on the CRLF version: {e}\n  src = {:?}", crlf),
                }
                obs.class("crlf-version-checked");
            }
            let registered_pending = tr.decisions.iter().any(|d| *d == Decision::Pending);
            let consecutive_blank = r.src.contains("\n\n\n") || r.src.starts_with("\n\n");
            if !r.elems.is_empty() || consecutive_blank {
                if registered_pending {
                    obs.class("has-pending-registered-element");
                }
                if tr.decisions.iter().zip(tr.extents.iter()).any(|(d, e)| *d == Decision::Ready && matches!(e, Extent::None | Extent::Undefined)) {
                    obs.class("condition-holds-but-cannot-unwrap");
                }
                if tr.decisions.iter().any(|d| *d == Decision::Skip) {
                    obs.class("has-skip");
                }
                obs.nontrivial(c, || json!({"src": r.src, "delims": [c.spell.ds, c.spell.de]}));
            }
        }
        Which::C02 => {
            if let Err(m) = assert_c02(&r.src, &tr.keep, &out) {
                return Verdict::Fail(m);
            }
            if any_ready && tr.keep.iter().zip(r.src.bytes()).any(|(k, b)| *k && !matches!(b, b' ' | b'\t' | b'\n')) {
                classify_common(&r, &tr, obs, &depth_of);
                obs.nontrivial(c, || json!({"src": r.src, "out": out, "delims": [c.spell.ds, c.spell.de]}));
            }
        }
        Which::C03 => {
            if let Err(m) = assert_c03(&r.src, &tr.keep, &out) {
                return Verdict::Fail(m);
            }
            // markers: a tag whose bytes are all removed must not leave its #id#, a tag kept entirely must
            for e in &r.elems {
                let mk = format!("#{}#", e.id);
                let all_removed = tr.keep[e.open.0..e.open.1].iter().all(|k| !*k);
                let all_kept = tr.keep[e.open.0..e.open.1].iter().all(|k| *k);
                let present = out.contains(&mk);
                if all_removed && present {
                    vfail!("opening tag of element {} lies in a removable extent but survives{}", e.id, show(&r.src, &out));
                }
                if all_kept && !present {
                    vfail!("opening tag of element {} lies outside every removable extent but is gone{}", e.id, show(&r.src, &out));
                }
            }
            // non-trivial: a ready element nested in a non-ready / ready parent or in an unwrapped body, or depth >= 2
            let mut nt = false;
            for (i, e) in r.elems.iter().enumerate() {
                if tr.decisions[i] == Decision::Ready && !matches!(tr.extents[i], Extent::None) {
                    if let Some(p) = e.parent {
                        nt = true;
                        match tr.decisions[p] {
                            Decision::Pending => obs.class("ready-in-pending-parent"),
                            Decision::Skip => obs.class("ready-in-skip-parent"),
                            Decision::Unregistered => obs.class("ready-in-unregistered-parent"),
                            Decision::Ready => {
                                if matches!(tr.extents[p], Extent::Parts(..)) {
                                    obs.class("ready-in-unwrapped-body-or-wrapper")
                                } else {
                                    obs.class("ready-in-ready-parent")
                                }
                            }
                        }
                        if depth_of(i) >= 2 {
                            obs.class("ready-at-depth>=2");
                        }
                    }
                }
            }
            if nt {
                obs.nontrivial(c, || json!({"src": r.src, "out": out, "delims": [c.spell.ds, c.spell.de]}));
            }
        }
        Which::C14 => match assert_c14(&r.src, &tr.keep, &tr.inbody, &out) {
            Err(m) => return Verdict::Fail(m),
            Ok(interesting) => {
                if any_ready && interesting > 0 {
                    if tr.n_unwrapped > 0 {
                        obs.class("has-unwrapped-body");
                    }
                    obs.nontrivial(c, || json!({"src": r.src, "out": out, "delims": [c.spell.ds, c.spell.de]}));
                }
            }
        },
    }
    Verdict::Pass
}

fn classify_common(r: &astgen::Rendered, tr: &astgen::Truth, obs: &mut Obs, depth_of: &dyn Fn(usize) -> usize) {
    if tr.n_unwrapped > 0 {
        obs.class("has-unwrapped-element");
    }
    for (i, e) in r.elems.iter().enumerate() {
        if tr.decisions[i] == Decision::Ready {
            if e.open.0 == 0 {
                obs.class("marker-at-byte-0");
            }
            if e.close.1 == r.src.len() {
                obs.class("marker-at-eof");
            }
            if depth_of(i) >= 2 {
                obs.class("three-level-nesting");
            }
            if e.inline {
                obs.class("ready-inline");
            }
        }
    }
}

// ---- junk documents -------------------------------------------------------------------------------------

pub fn oracle_junk(c: &JunkCase, which: Which, obs: &mut Obs) -> Verdict {
    oracle_junk_mode(c, which, obs, false)
}

/// `counted`: the case comes from an exhaustive enumeration (distinct by construction)
pub fn oracle_junk_mode(c: &JunkCase, which: Which, obs: &mut Obs, counted: bool) -> Verdict {
    let nt = |obs: &mut Obs, sample: &dyn Fn() -> Value| {
        if counted {
            obs.nontrivial_counted(sample)
        } else {
            obs.nontrivial(c, sample)
        }
    };
    let out = match call_clean(&c.src, &c.cfg) {
        Ok(o) => o,
        Err(p) => vfail!("clean panicked: {p}\n  src = {:?} delims = {:?}/{:?}", c.src, c.cfg.ds, c.cfg.de),
    };
    if which == Which::C02 && !is_char_subseq(&out, &c.src) {
        vfail!("the output is not the input with ranges taken out{}", show(&c.src, &out));
    }
    let els = match refmodel::model(&c.src, &c.cfg) {
        Model::OutOfDomain(w) => {
            obs.excluded(w);
            return Verdict::Pass;
        }
        Model::Ok(els) => els,
    };
    let ex = match refmodel::extents(&c.src, &els) {
        Err(w) => {
            obs.excluded(w);
            return Verdict::Pass;
        }
        Ok(ex) => ex,
    };
    let sample = || json!({"src": c.src, "out": out, "delims": [c.cfg.ds, c.cfg.de], "targets": c.cfg.targets});
    match which {
        Which::C04 => {
            if ex.any_ready {
                obs.excluded("something-is-ready");
                return Verdict::Pass;
            }
            if out != c.src {
                vfail!("the reference evaluation finds no ready element but clean changed the text{}\n  delims = {:?}/{:?} targets = {:?} now = {} offset = {:?}", show(&c.src, &out), c.cfg.ds, c.cfg.de, c.cfg.targets, c.cfg.now, c.cfg.offset);
            }
            match call_list(&c.src, &c.cfg, false, true).and_then(|js| parse_items(&js)) {
                Ok(items) => {
                    if !items.is_empty() {
                        vfail!("no ready element but list reports {} item(s) for {:?}", items.len(), c.src);
                    }
                }
                Err(e) => vfail!("list failed: {e} for {:?}", c.src),
            }
            if !els.is_empty() || c.src.contains("\n\n\n") {
                if els.iter().any(|e| e.decision == Decision::Pending) {
                    obs.class("has-pending-registered-element");
                }
                nt(obs, &sample);
            }
        }
        Which::C02 => {
            if let Err(m) = assert_c02(&c.src, &ex.keep, &out) {
                return Verdict::Fail(format!("{m}\n  delims = {:?}/{:?} targets = {:?}", c.cfg.ds, c.cfg.de, c.cfg.targets));
            }
            if ex.any_ready && !nows(&refmodel::kept_text(&c.src, &ex.keep)).is_empty() {
                nt(obs, &sample);
            }
        }
        Which::C03 => {
            if let Err(m) = assert_c03(&c.src, &ex.keep, &out) {
                return Verdict::Fail(format!("{m}\n  delims = {:?}/{:?} targets = {:?} now = {} offset = {:?}", c.cfg.ds, c.cfg.de, c.cfg.targets, c.cfg.now, c.cfg.offset));
            }
            if els.iter().any(|e| e.decision == Decision::Ready && e.depth >= 1) {
                nt(obs, &sample);
            }
        }
        Which::C14 => match assert_c14(&c.src, &ex.keep, &ex.inbody, &out) {
            Err(m) => return Verdict::Fail(format!("{m}\n  delims = {:?}/{:?} targets = {:?}", c.cfg.ds, c.cfg.de, c.cfg.targets)),
            Ok(n) => {
                if ex.any_ready && n > 0 {
                    nt(obs, &sample);
                }
            }
        },
    }
    Verdict::Pass
}

// ---- C14 with the implementation's own markers: also defined where C11 is silent (shared tag lines) -------------

/// The removed characters are taken from chiritori's own markers (what clean deletes before tidying); the
/// unwrapped bodies from the head/tail pairs. Only C14's statement is asserted.
pub fn oracle_c14_markers(c: &JunkCase, obs: &mut Obs) -> Verdict {
    let markers = match impl_markers(&c.src, &c.cfg) {
        Ok(m) => m,
        Err(p) => vfail!("building the removal markers panicked: {p}\n  src = {:?}", c.src),
    };
    let out = match call_clean(&c.src, &c.cfg) {
        Ok(o) => o,
        Err(p) => vfail!("clean panicked: {p}\n  src = {:?}", c.src),
    };
    let n = c.src.len();
    let mut keep = vec![true; n];
    let mut inbody = vec![false; n];
    for (i, (r, pair)) in markers.iter().enumerate() {
        if r.end > n || r.start > r.end {
            vfail!("marker {:?} is outside the source ({} bytes)", r, n);
        }
        for k in keep.iter_mut().take(r.end).skip(r.start) {
            *k = false;
        }
        if let Some(p) = pair {
            if *p > i && *p < markers.len() {
                let tail = &markers[*p].0;
                for b in inbody.iter_mut().take(tail.start.min(n)).skip(r.end) {
                    *b = true;
                }
            }
        }
    }
    match assert_c14(&c.src, &keep, &inbody, &out) {
        Err(m) => Verdict::Fail(format!("{m}\n  (removed characters = chiritori's own markers {:?})\n  delims = {:?}/{:?} targets = {:?}", markers.iter().map(|(r, _)| (r.start, r.end)).collect::<Vec<_>>(), c.cfg.ds, c.cfg.de, c.cfg.targets)),
        Ok(interesting) => {
            if !markers.is_empty() && interesting > 0 {
                if markers.iter().any(|(_, p)| p.is_some()) {
                    obs.class("markers:has-unwrapped-body");
                }
                obs.nontrivial(c, || json!({"src": c.src, "out": out, "markers": markers.iter().map(|(r, _)| (r.start, r.end)).collect::<Vec<_>>()}));
            }
            Verdict::Pass
        }
    }
}

fn gen_hostile_junk(t: &mut Tape) -> JunkCase {
    let mut o = dense_opts(Which::C02);
    o.unwrap_tags_shared = true;
    o.shared_pct = 55;
    o.straddle_pct = 30;
    o.delims = vec![("<", ">"), ("<!-- <", "> -->"), ("「", "」"), ("|", "|"), ("[[", "]]"), ("/* ", " */")];
    let (doc, sp) = astgen::gen_doc(t, &o);
    let mut acfg = astgen::gen_acfg(t);
    if t.chance(70) {
        acfg.now_idx = 4;
        acfg.targets = 7;
    }
    let r = astgen::render(&doc, &sp);
    JunkCase { src: r.src, cfg: acfg.to_cfg(&sp) }
}

// ---- whitespace layouts (C04) -------------------------------------------------------------------------------

fn ws_layout_units() -> Vec<usize> {
    (0..6).collect()
}

const WS_ATOMS: &[&str] = &["\n", " ", "\t", "x", "  y", "\n\n"];

// ---- check --------------------------------------------------------------------------------------------------

pub fn check(ctx: &mut Ctx, id: &'static str) {
    let which = Which::from(id);
    ctx.rule = match which {
        Which::C02 => "cases = (AST document, spelling, abstract configuration) with ground truth by construction, and junk / mutated documents judged by the reference model R1-R5 (documents outside the tag grammar or with ready unwrap tags sharing a line are excluded and counted). Oracle: output is a subsequence of the input and the non-whitespace text outside all removable extents is a subsequence of the output's. Non-trivial = at least one ready element and at least one non-whitespace character outside all extents.".into(),
        Which::C03 => "same generators as C02. Oracle: nonws(out) == nonws(input minus removable extents); on AST documents additionally every opening tag carries c=\"#id#\": ids of tags inside a removable extent must be absent, ids of tags outside must be present. Non-trivial = a ready element nested in a pending / skip / unregistered / ready parent or in an unwrapped body (AST), or a ready element at depth >= 1 (junk).".into(),
        Which::C04 => "AST documents in which every element that would be ready is neutralised (skip / unregistered name / malformed or missing condition / future date) plus unwrap-blocks that cannot be unwrapped, junk documents in which the reference evaluation finds nothing ready, and exhaustive whitespace layouts. Oracle: clean(src) == src byte for byte and list is empty. Non-trivial = at least one complete element or >= 2 consecutive blank lines.".into(),
        Which::C14 => "same generators as C02, plus hostile layouts (unwrap tags sharing lines with code, straddling children) and junk where the removed characters are taken from chiritori's own removal markers (so the statement is also checked where C11 defines no extent). Oracle: every maximal kept stretch, trimmed of spaces/tabs/line breaks, occurs verbatim in the output, searched left to right after the previous match; inside unwrapped bodies line by line. Non-trivial = something ready and a kept stretch with an interior line break, double space or tab.".into(),
    };
    ctx.assume("tag bodies follow the documented grammar (quoted values, space / line-break separators); other shapes are excluded from the reference model and counted");
    ctx.assume("a ready unwrap-block whose own tags share a line with code has no defined extent (C11) and is excluded");
    ctx.replay_corpus(|sub, case, obs| replay(id, sub, case, obs));
    if which == Which::C04 {
        // every whitespace layout up to 7 atoms, with and without one pending element in the middle
        let maxlen = ctx.tier.pick(7usize, 8usize);
        ctx.exhaustive("whitespace-layouts", &format!("all sequences of <= {maxlen} atoms over {:?}, plain and with a pending element inserted at every position", WS_ATOMS), ws_layout_units(), move |first, obs| {
            let mut fail = None;
            let atoms: Vec<String> = WS_ATOMS.iter().map(|s| s.to_string()).collect();
            let cfg = Cfg::simple("<", ">");
            let mut n = 0u64;
            crate::props::tok::enumerate(&atoms, *first, maxlen, &mut |s: &str| {
                let variants = [s.to_string(), format!("{s}<rm name='zz'>\n{s}</rm>{s}"), format!("<tl to='2999-01-01 00:00:00'>{s}</tl>")];
                for (vi, v) in variants.iter().enumerate() {
                    n += 1;
                    obs.eval();
                    match call_clean(v, &cfg) {
                        Ok(o) if &o == v => {
                            if vi > 0 || v.contains("\n\n\n") {
                                obs.nontrivial_counted(|| json!({"src": v}));
                            }
                        }
                        Ok(o) => {
                            fail = Some(fail_case("whitespace-layouts", &JunkCase { src: v.clone(), cfg: cfg.clone() }, format!("nothing is ready but clean changed the text{}", show(v, &o))));
                            return false;
                        }
                        Err(p) => {
                            fail = Some(fail_case("whitespace-layouts", &JunkCase { src: v.clone(), cfg: cfg.clone() }, format!("clean panicked: {p}")));
                            return false;
                        }
                    }
                }
                true
            });
            let _ = n;
            fail
        });
    }
    match which {
        Which::C03 => {
            for c in ["ready-in-pending-parent", "ready-in-skip-parent", "ready-in-unregistered-parent", "ready-in-ready-parent", "ready-in-unwrapped-body-or-wrapper", "ready-at-depth>=2"] {
                ctx.require_class(c);
            }
        }
        Which::C02 => {
            for c in ["has-unwrapped-element", "marker-at-byte-0", "marker-at-eof", "three-level-nesting", "ready-inline"] {
                ctx.require_class(c);
            }
        }
        Which::C04 => {
            for c in ["has-pending-registered-element", "condition-holds-but-cannot-unwrap", "has-skip", "crlf-version-checked"] {
                ctx.require_class(c);
            }
        }
        Which::C14 => ctx.require_class("has-unwrapped-body"),
    }
    ctx.require_class("ready-element-with-multi-line-opening-tag");
    // bounded-exhaustive atom sequences, judged by the reference model
    {
        let l = ctx.tier.pick(6usize, 7usize);
        let pairs = [("<", ">"), ("<!-- <", "> -->"), ("「", "」")];
        let mut units = vec![];
        for (ds, de) in pairs {
            let atoms: Vec<String> = vec![
                format!("{ds}rm name='a'{de}"),
                format!("{ds}/rm{de}"),
                format!("{ds}rm name='a' unwrap-block{de}"),
                format!("{ds}rm name='b'{de}"),
                "\n".to_string(),
                "x".to_string(),
                " ".to_string(),
                "  é".to_string(),
            ];
            for first in 0..atoms.len() {
                units.push((ds.to_string(), de.to_string(), atoms.clone(), first));
            }
        }
        ctx.exhaustive("atom-documents", &format!("every sequence of <= {l} atoms over {{ready tag, closing tag, ready unwrap-block tag, pending tag, line break, 'x', blank, indented multi-byte word}} for 3 delimiter pairs, judged by the reference model"), units, move |(ds, de, atoms, first), obs| {
            let mut fail = None;
            let cfg = Cfg::simple(ds, de);
            crate::props::tok::enumerate(atoms, *first, l, &mut |s: &str| {
                let c = JunkCase { src: s.to_string(), cfg: cfg.clone() };
                obs.eval();
                if let Verdict::Fail(m) = oracle_junk_mode(&c, which, obs, true) {
                    fail = Some(fail_case("atom-documents", &c, m));
                    return false;
                }
                true
            });
            fail
        });
    }
    let (q, th) = (300_000u64, 3_000_000u64);
    ctx.random("ast-documents", 400, q, th, |t| gen_ast(t, which), |c, obs| oracle_ast(c, which, obs));
    ctx.reshrink::<AstCase, _, _>("ast-documents", |c, obs| oracle_ast(c, which, obs), shrink_ast);
    ctx.random("dense-ast-documents", 300, q, th, |t| gen_ast_dense(t, which), |c, obs| oracle_ast(c, which, obs));
    ctx.reshrink::<AstCase, _, _>("dense-ast-documents", |c, obs| oracle_ast(c, which, obs), shrink_ast);
    ctx.random("junk-soup", 200, q, th, |t| junkgen::gen_soup(t, junkgen::JUNK_DELIMS, true), |c, obs| oracle_junk(c, which, obs));
    // hand-built documents judged by the reference model: (a) many tag-like tokens that are never closed (unregistered
    // openers, stray closers, ordinary comments that look like tags) in front of / around ready and pending elements;
    // (b) elements that are NOT ready for a near-miss reason (the other quote character inside a value, a value that
    // merely begins with a target / a date)
    {
        let mut cases: Vec<JunkCase> = vec![];
        for (ds, de) in [("<", ">"), ("<!-- <", "> -->"), ("<!--", "-->")] {
            let mut cfg = Cfg::simple(ds, de);
            cfg.targets = vec!["a".into(), "feature1".into()];
            let tag = |body: &str| format!("{ds}{body}{de}");
            let body = format!("x\n{}\nREADY\n{}\ny\n{}\nPENDING\n{}\nz {}inline{} w\n", tag("rm name='a'"), tag("/rm"), tag("rm name='zz'"), tag("/rm"), tag("tl to=\"2001-01-01 00:00:00\""), tag("/tl"));
            for k in [3usize, 40, 63, 64, 65, 130, 300] {
                for junk in [tag("note"), tag("/stray"), tag("zz c='open'"), tag(" just a comment "), tag("tl")] {
                    let head = format!("{junk}\n").repeat(k);
                    cases.push(JunkCase { src: format!("{head}{body}"), cfg: cfg.clone() });
                    cases.push(JunkCase { src: format!("{body}{head}{body}"), cfg: cfg.clone() });
                }
            }
            for near in ["rm name=\"a's\"", "rm name='a\"s'", "rm name=\"feature1's\"", "rm name=\"a b\"", "rm name='a,feature1'", "tl to=\"2001-01-01 00:00:00'ish\"", "tl to='2001-01-01 00:00:00\" x'", "tl to=\"2001-01-01 00:00:00 \"", "rm nam='a'", "rm name=\"A\"", "rm c=\"name='a'\"", "rm name=\"a\" skip", "rm skip name='a'", "rmx name='a'", "r name='a'"] {
                let close = format!("/{}", near.split(' ').next().unwrap());
                cases.push(JunkCase { src: format!("p{}Q{}r", tag(near), tag(&close)), cfg: cfg.clone() });
                cases.push(JunkCase { src: format!("p\n  {}\n  Q\n  {}\nr\n", tag(near), tag(&close)), cfg: cfg.clone() });
                cases.push(JunkCase { src: format!("p\n{}\nif (x) {{\n  Q\n}}\n{}\nr\n", tag(&format!("{near} unwrap-block")), tag(&close)), cfg: cfg.clone() });
            }
        }
        let n = cases.len();
        ctx.exhaustive("built-documents", &format!("{n} hand-built documents: 3..300 never-closed tag-like tokens around ready / pending elements; elements that miss readiness narrowly (other quote inside a value, prefix of a target or of a date, look-alike names)"), cases.chunks(20).map(|c| c.to_vec()).collect(), move |cs, obs| {
            for c in cs {
                obs.eval();
                if let Verdict::Fail(m) = oracle_junk_mode(c, which, obs, true) {
                    let small = JunkCase { src: truncate(&c.src, 700), cfg: c.cfg.clone() };
                    return Some(fail_case("built-documents", &small, truncate(&m, 900)));
                }
            }
            None
        });
    }
    let mo = {
        let mut o = ast_opts(Which::C02);
        o.max_top = 4;
        o
    };
    ctx.random("mutated-ast", 400, q / 2, th / 2, |t| junkgen::gen_mutated(t, &mo), |c, obs| oracle_junk(c, which, obs));
    if which == Which::C14 {
        ctx.require_class("markers:has-unwrapped-body");
        ctx.random("hostile-layouts-own-markers", 300, q, th, gen_hostile_junk, oracle_c14_markers);
        ctx.random("junk-soup-own-markers", 200, q / 2, th / 2, |t| junkgen::gen_soup(t, junkgen::JUNK_DELIMS, true), oracle_c14_markers);
    }
    if ctx.tier == Tier::Thorough {
        let mut seeds = vec![];
        for t in repo_seed_texts() {
            seeds.push(crate::fuzzglue::encode("model", 2, 0x10, &t));
        }
        for (i, (ds, de)) in junkgen::JUNK_DELIMS.iter().enumerate() {
            seeds.push(crate::fuzzglue::encode("model", i as u8, 0x10, &format!("a\n  {ds}rm name='a'{de}\n  x\n  {ds}/rm{de}\nb {ds}tl to='2001-01-01 00:00:00'{de}y{ds}/tl{de} c\n{ds}rm name='a' unwrap-block{de}\nif {{\n  z\n}}\n{ds}/rm{de}\n")));
        }
        ctx.fuzz_campaign("model", 150_000, 512, seeds, move |data| crate::fuzzglue::fuzz_one("model", id, data));
    }
    // generator health: discards must stay moderate
    let ex: u64 = ctx.stats.excluded.iter().filter(|(k, _)| k.as_str() != "something-is-ready").map(|(_, v)| *v).sum();
    ctx.extra.insert("excluded_fraction".into(), json!(ex as f64 / ctx.stats.evaluations.max(1) as f64));
}

/// structural second shrinking pass for AST cases
pub fn shrink_ast(c: &AstCase, fails: &dyn Fn(&AstCase) -> bool) -> AstCase {
    let doc = astgen::minimize_doc(&c.doc, |d| fails(&AstCase { doc: d.clone(), spell: c.spell.clone(), cfg: c.cfg.clone() }));
    AstCase { doc, spell: c.spell.clone(), cfg: c.cfg.clone() }
}

pub fn replay(id: &str, sub: &str, case: &Value, obs: &mut Obs) -> Result<Verdict, String> {
    let which = Which::from(id);
    match sub {
        "hostile-layouts-own-markers" | "junk-soup-own-markers" => replay_case::<JunkCase, _>(case, obs, |c, obs| {
            obs.eval();
            oracle_c14_markers(c, obs)
        }),
        "ast-documents" | "dense-ast-documents" => replay_case::<AstCase, _>(case, obs, |c, obs| {
            obs.eval();
            oracle_ast(c, which, obs)
        }),
        _ => replay_case::<JunkCase, _>(case, obs, |c, obs| {
            obs.eval();
            oracle_junk(c, which, obs)
        }),
    }
}
