//! C05: expiry decision — ready exactly when now >= `to` read at the configured offset.

use crate::astgen::{self, ACfg, Doc, Opts, Spell};
use crate::cli::{cli_available, rfc3339, run_cli};
use crate::engine::*;
use crate::refmodel::{MALFORMED_OFFSET, MALFORMED_TO};
use crate::util::*;
use crate::vfail;
use chiritori::code::remover::removal_evaluator::{time_limited_evaluator::TimeLimitedEvaluator, RemovalEvaluator};
use chiritori::element_parser::{Attribute, Element};
use chrono::{Local, TimeZone};
use serde::{Deserialize, Serialize};
use serde_json::{json, Value};

#[derive(Serialize, Deserialize, Clone, Hash, Debug)]
pub struct TimeCase {
    pub now: i64,
    /// attribute text inside the tag: `to="…"`, `to`, or empty
    pub to_attr: String,
    pub offset: String,
    pub expect_ready: bool,
    pub why: String,
}

fn probe(c: &TimeCase) -> Result<bool, String> {
    let src = format!("A<tl {}>X</tl>B", c.to_attr);
    let cfg = Cfg { ds: "<".into(), de: ">".into(), tl_tag: "tl".into(), rm_tag: "rm".into(), now: c.now, offset: c.offset.clone(), targets: vec![] };
    let out = call_clean(&src, &cfg).map_err(|p| format!("clean panicked: {p}"))?;
    if out == "AB" {
        Ok(true)
    } else if out == src {
        Ok(false)
    } else {
        Err(format!("probe document {src:?} was cleaned to {out:?}"))
    }
}

fn direct(c: &TimeCase) -> Option<bool> {
    let v = c.to_attr.strip_prefix("to=\"")?.strip_suffix('"')?;
    let ev = TimeLimitedEvaluator { current_time: Local.timestamp_opt(c.now, 0).unwrap(), time_offset: c.offset.clone() };
    let el = Element { name: "tl", attrs: vec![Attribute { name: "to", value: Some(v) }] };
    std::panic::catch_unwind(|| ev.is_removal(&el)).ok()
}

pub fn oracle(c: &TimeCase, obs: &mut Obs, nontrivial: bool, counted: bool) -> Verdict {
    let got = match probe(c) {
        Ok(g) => g,
        Err(e) => vfail!("{e} (now = {} = {} UTC, offset {:?})", c.now, wall(c.now, 0), c.offset),
    };
    if got != c.expect_ready {
        vfail!("element with {} at offset {:?} is {} at now = {} UTC (epoch {}); expected {} [{}]", c.to_attr, c.offset, if got { "removed" } else { "kept" }, wall(c.now, 0), c.now, if c.expect_ready { "removed" } else { "kept" }, c.why);
    }
    if let Some(d) = direct(c) {
        if d != c.expect_ready {
            vfail!("is_removal({}) at offset {:?}, now {} UTC returned {d}; expected {} [{}]", c.to_attr, c.offset, wall(c.now, 0), c.expect_ready, c.why);
        }
    }
    if nontrivial {
        let mk = || json!({"now_utc": wall(c.now, 0), "to_attr": c.to_attr, "offset": c.offset, "ready": c.expect_ready, "class": c.why});
        if counted {
            obs.nontrivial_counted(mk);
        } else {
            obs.nontrivial(c, mk);
        }
    }
    Verdict::Pass
}

fn anchors() -> Vec<i64> {
    let mut v = vec![];
    for (y, m, d) in [
        (1972, 1, 1), (1972, 2, 28), (1972, 2, 29), (1972, 3, 1), (1999, 12, 31), (2000, 1, 1), (2000, 2, 28), (2000, 2, 29), (2000, 3, 1), (2001, 2, 28), (2001, 3, 1),
        (2023, 2, 28), (2023, 3, 1), (2023, 12, 31), (2024, 1, 1), (2024, 2, 28), (2024, 2, 29), (2024, 3, 1), (2024, 4, 30), (2024, 5, 1), (2024, 12, 31), (2025, 1, 1), (2038, 1, 19),
        (2099, 12, 31), (2100, 1, 1), (2100, 2, 28), (2100, 3, 1),
    ] {
        v.push(days_from_civil(y, m, d) * 86400);
    }
    v
}

fn deltas(thorough: bool) -> Vec<i64> {
    let mut v = vec![-86401, -86400, -86399, -3601, -3600, -3599, -61, -60, -59, -1, 0, 1, 59, 60, 61, 3599, 3600, 3601, 86399, 86400, 86401];
    if thorough {
        for k in [2, 3, 10, 900, 1800, 43200, 172800, 31536000] {
            v.push(k);
            v.push(-k);
        }
    }
    v
}

fn grid_case(now: i64, d: i64, ofs: i64, colon: bool) -> TimeCase {
    let local_date_differs = wall(now + d, ofs)[..10] != wall(now + d, 0)[..10];
    TimeCase {
        now,
        to_attr: format!("to=\"{}\"", wall(now + d, ofs)),
        offset: offset_text(ofs, colon),
        expect_ready: d <= 0,
        why: format!("to = now{:+}s{}", d, if local_date_differs { ", local date differs from UTC date" } else { "" }),
    }
}

// ---- monotonicity ---------------------------------------------------------------------------------------------

#[derive(Serialize, Deserialize, Clone, Hash, Debug)]
pub struct MonoCase {
    pub doc: Doc,
    pub spell: Spell,
    pub targets: u8,
}

fn mono_oracle(c: &MonoCase, obs: &mut Obs) -> Verdict {
    let r = astgen::render(&c.doc, &c.spell);
    let mut prev: Option<Vec<usize>> = None;
    let mut grew = 0;
    for j in 0..5 {
        let acfg = ACfg { now_idx: j, targets: c.targets };
        let cfg = acfg.to_cfg(&c.spell);
        let out = match call_clean(&r.src, &cfg) {
            Ok(o) => o,
            Err(p) => vfail!("clean panicked: {p} on {:?}", r.src),
        };
        let removed: Vec<usize> = r.elems.iter().filter(|e| !out.contains(&format!("#{}#", e.id))).map(|e| e.id).collect();
        if let Some(p) = &prev {
            if let Some(lost) = p.iter().find(|id| !removed.contains(id)) {
                vfail!("element #{lost}# is removed at time index {} but present again at the later time index {j}\n  src = {:?}\n  out = {:?}", j - 1, r.src, out);
            }
            if removed.len() > p.len() {
                grew += 1;
            }
        }
        prev = Some(removed);
    }
    obs.evals(4);
    if grew >= 2 {
        obs.nontrivial(c, || json!({"src": r.src, "steps_that_removed_more": grew}));
    }
    Verdict::Pass
}

pub fn check(ctx: &mut Ctx) {
    ctx.rule = "cases = (current instant, `to` attribute text, offset string). Exhaustive grid: 27 boundary dates (epoch, leap days, month/year ends, 2038, 2100) x 4 times of day x 105 offsets (-12:00..+14:00 step 15 min) x 2 spellings x second deltas around 0, +-1 min, +-1 h, +-1 day; `to` is the wall clock of now+delta at the offset computed with independent days-from-civil arithmetic; expected ready iff delta <= 0. Malformed `to` values / missing / valueless `to` and malformed offsets enumerated (never ready). Random instants 1972..2100. Monotonicity: AST documents cleaned at 5 increasing instants, the set of removed element ids must only grow. CLI: the same instant in several zone spellings and TZ settings. Non-trivial = |delta| <= 1 s, or the local date at the offset differs from the UTC date, or a malformed class; for monotonicity at least two steps that removed more.".into();
    ctx.assume("chrono's lenient forms (single-digit fields, two-digit years, second 60, surrounding spaces) are unspecified and never generated");
    ctx.replay_corpus(replay);
    let thorough = ctx.tier == Tier::Thorough;
    // grid, one unit per anchor
    let units = anchors();
    let dl = deltas(thorough);
    let n_cases = units.len() * 4 * 105 * 2 * dl.len();
    ctx.exhaustive("grid", &format!("{} anchors x 4 times of day x 105 offsets x 2 spellings x {} deltas = {} decisions (each through clean and is_removal)", units.len(), dl.len(), n_cases), units, |a, obs| {
        for tod in [0i64, 1, 43200, 86399] {
            let now = a + tod;
            for q in -48i64..=56 {
                let ofs = q * 900;
                for colon in [true, false] {
                    for &d in &dl {
                        let c = grid_case(now, d, ofs, colon);
                        obs.eval();
                        let nt = d.abs() <= 1 || c.why.contains("local date");
                        if let Verdict::Fail(m) = oracle(&c, obs, nt, true) {
                            return Some(fail_case("grid", &c, m));
                        }
                    }
                }
            }
        }
        None
    });
    // malformed classes
    let mut mal: Vec<TimeCase> = vec![];
    let past_now = epoch(2024, 6, 1, 0, 0, 0);
    for to in MALFORMED_TO {
        for off in ["+00:00", "+0900", "-08:00"] {
            mal.push(TimeCase { now: past_now, to_attr: format!("to=\"{to}\""), offset: off.into(), expect_ready: false, why: "malformed to".into() });
        }
    }
    for (attr, why) in [("to", "valueless to"), ("", "missing to"), ("until=\"2000-01-01 00:00:00\"", "missing to (other attribute)"), ("TO=\"2000-01-01 00:00:00\"", "missing to (case differs)")] {
        mal.push(TimeCase { now: past_now, to_attr: attr.into(), offset: "+00:00".into(), expect_ready: false, why: why.into() });
    }
    for off in MALFORMED_OFFSET {
        for to in ["2000-01-01 00:00:00", "1972-01-01 00:00:00"] {
            mal.push(TimeCase { now: past_now, to_attr: format!("to=\"{to}\""), offset: off.to_string(), expect_ready: false, why: "malformed offset".into() });
        }
    }
    // both malformed at once (a `to` that carries its own zone must not rescue an unparseable offset, and so on)
    for to in MALFORMED_TO {
        for off in MALFORMED_OFFSET {
            mal.push(TimeCase { now: past_now, to_attr: format!("to=\"{to}\""), offset: off.to_string(), expect_ready: false, why: "malformed to and malformed offset".into() });
        }
    }
    // the two strings are configuration and data of different origin: a piece of one must not complete the other
    // (a well-formed "<to> <offset>" text cut anywhere but between the two)
    for to in ["2020-01-01 00:00:00", "1999-12-31 23:59:59"] {
        for off in ["+09:00", "+0900", "-08:00", "-0330", "+00:00", "+14:00"] {
            for sep in [" ", ""] {
                for k in 1..off.len() {
                    mal.push(TimeCase { now: past_now, to_attr: format!("to=\"{to}{sep}{}\"", &off[..k]), offset: off[k..].to_string(), expect_ready: false, why: "to carries the beginning of a zone, the offset string is only the rest of one (both unparseable)".into() });
                }
            }
            for k in 1..to.len() {
                for sep in [" ", ""] {
                    mal.push(TimeCase { now: past_now, to_attr: format!("to=\"{}\"", &to[..k]), offset: format!("{}{sep}{off}", &to[k..]), expect_ready: false, why: "to is cut short, the offset string carries the rest of it (both unparseable)".into() });
                }
            }
        }
    }
    // sanity of the probe itself: the same well-formed values are ready with a valid offset
    mal.push(TimeCase { now: past_now, to_attr: "to=\"2000-01-01 00:00:00\"".into(), offset: "+00:00".into(), expect_ready: true, why: "control: well-formed past date".into() });
    let n_mal = mal.len();
    ctx.exhaustive("malformed", &format!("{n_mal} malformed / missing / valueless `to` values and malformed offsets at a past instant"), vec![mal], |cases, obs| {
        for c in cases {
            obs.eval();
            if let Verdict::Fail(m) = oracle(c, obs, true, true) {
                return Some(fail_case("malformed", c, m));
            }
        }
        None
    });
    // several elements in one document: a malformed `to` next to / inside / around a well-formed expired one
    {
        let now = epoch(2040, 1, 1, 0, 0, 0);
        let good = ["2030-06-01 00:00:00", "2000-01-01 00:00:00", "2039-12-31 23:59:59"];
        let future = "2041-01-01 00:00:00";
        let mut docs: Vec<(String, String)> = vec![];
        for g in good {
            for m in MALFORMED_TO.iter().chain([future].iter()) {
                let ge = format!("<tl to=\"{g}\">G</tl>");
                let me = format!("<tl to=\"{m}\">M</tl>");
                docs.push((format!("a{ge}b{me}c"), format!("ab{me}c")));
                docs.push((format!("a{me}b{ge}c"), format!("a{me}bc")));
                docs.push((format!("a<tl to=\"{m}\">x{ge}y</tl>c"), format!("a<tl to=\"{m}\">xy</tl>c")));
                docs.push((format!("a<tl to=\"{g}\">x{me}y</tl>c"), "ac".to_string()));
                docs.push((format!("a{ge}b{me}c{ge}d{me}e"), format!("ab{me}cd{me}e")));
            }
        }
        let n = docs.len();
        ctx.exhaustive("several-elements", &format!("{n} documents combining a well-formed expired element with a malformed / future one (before, after, nested either way, alternating)"), vec![docs], move |docs, obs| {
            for (src, expect) in docs {
                let cfg = Cfg { ds: "<".into(), de: ">".into(), tl_tag: "tl".into(), rm_tag: "rm".into(), now, offset: "+00:00".into(), targets: vec![] };
                obs.eval();
                match call_clean(src, &cfg) {
                    Ok(out) if &out == expect => obs.nontrivial_counted(|| json!({"src": src, "out": out})),
                    Ok(out) => {
                        let c = TimeCase { now, to_attr: src.clone(), offset: "+00:00".into(), expect_ready: false, why: "several-elements".into() };
                        return Some(fail_case("several-elements", &c, format!("clean({src:?}) at 2040-01-01 gave {out:?}, expected {expect:?}: a malformed or future `to` is never ready, whatever other elements the document contains")));
                    }
                    Err(p) => {
                        let c = TimeCase { now, to_attr: src.clone(), offset: "+00:00".into(), expect_ready: false, why: "several-elements".into() };
                        return Some(fail_case("several-elements", &c, format!("clean panicked: {p}")));
                    }
                }
            }
            None
        });
    }
    // the decision must not depend on the shape of the element that carries it: inline, block, unwrap-block with and
    // without inner lines, nested in a pending parent, `to` behind other attributes
    {
        let shapes: Vec<(&str, &str, &str)> = vec![
            ("inline", "A<tl @>X</tl>B", "AB"),
            ("block", "a\n<tl @>\nx\n</tl>\nb\n", "ab"),
            ("unwrap-block with inner lines", "a\n<tl @ unwrap-block>\nif (x) {\n  y\n  z\n}\n</tl>\nb\n", "ayzb"),
            ("unwrap-block with exactly two lines", "a\n<tl @ unwrap-block>\nif (x) {\n}\n</tl>\nb\n", "ab"),
            ("unwrap-block first, then to", "a\n<tl unwrap-block @>\nif (x) {\n  y\n}\n</tl>\nb\n", "ayb"),
            ("to behind a bare attribute", "A<tl draft @>X</tl>B", "AB"),
            ("to behind a quoted attribute", "A<tl c='to' @>X</tl>B", "AB"),
            ("in a pending parent", "a<rm name='zz'>b<tl @>X</tl>c</rm>d", "a<rmname='zz'>bc</rm>d"),
            ("in an unregistered parent", "a<div>b<tl @>X</tl>c</div>d", "a<div>bc</div>d"),
            // an expired child inside an expired unwrap-block parent that cannot be unwrapped (one line between its tags): the
            // parent stays, the child goes
            ("child of an un-unwrappable unwrap-block", "a\n<tl @ unwrap-block>\n<tl @>X</tl>\n</tl>\nb\n", "a<tl@unwrap-block></tl>b"),
            ("child of an inline unwrap-block", "a <tl @ unwrap-block>p <tl @>X</tl> q</tl> b", "a<tl@unwrap-block>pq</tl>b"),
        ];
        let mut cases: Vec<(String, String, String, TimeCase)> = vec![];
        for now in [epoch(2024, 2, 29, 0, 0, 0), epoch(2038, 1, 19, 3, 14, 7)] {
            for d in [-86400i64, -1, 0, 1, 86400] {
                for (ofs, colon) in [(0i64, true), (9 * 3600, false), (-8 * 3600, true), (5 * 3600 + 45 * 60, true)] {
                    let c = grid_case(now, d, ofs, colon);
                    for (name, tmpl, gone) in &shapes {
                        cases.push((name.to_string(), tmpl.replace('@', &c.to_attr), nows(&gone.replace('@', &c.to_attr)), c.clone()));
                    }
                }
            }
        }
        let n = cases.len();
        ctx.exhaustive("element-shapes", &format!("{n} = 2 instants x 5 deltas x 4 offsets x {} element shapes (inline, block, unwrap-block with / without inner lines, attribute orders, nested in pending / unregistered parents)", shapes.len()), vec![cases], |cases, obs| {
            for (name, src, gone, c) in cases {
                obs.eval();
                let cfg = Cfg { ds: "<".into(), de: ">".into(), tl_tag: "tl".into(), rm_tag: "rm".into(), now: c.now, offset: c.offset.clone(), targets: vec![] };
                let out = match call_clean(src, &cfg) {
                    Ok(o) => o,
                    Err(p) => return Some(fail_case("element-shapes", c, format!("clean panicked on {src:?}: {p}"))),
                };
                let ok = if c.expect_ready { nows(&out) == *gone } else { out == *src };
                if !ok {
                    return Some(fail_case("element-shapes", c, format!("shape '{name}': clean({src:?}) at now = {} UTC, offset {:?} gave {out:?}; the element is {} [{}], so the expected result is {}", wall(c.now, 0), c.offset, if c.expect_ready { "expired" } else { "not expired" }, c.why, if c.expect_ready { format!("{gone:?} (ignoring whitespace)") } else { "the unchanged source".to_string() })));
                }
                obs.class(&format!("shape:{name}"));
                obs.nontrivial_counted(|| json!({"shape": name, "src": src, "now_utc": wall(c.now, 0), "offset": c.offset, "ready": c.expect_ready}));
            }
            None
        });
    }
    ctx.random(
        "random-instants",
        8,
        300_000,
        20_000_000,
        |t| {
            let lo = epoch(1972, 1, 1, 0, 0, 0);
            let span_days = 47_000usize; // ~ until 2100
            let now = lo + (t.below(span_days) as i64) * 86400 + t.below(65536) as i64 * 86400 / 65536;
            let d = match t.below(6) {
                0 => t.below(5) as i64 - 2,
                1 => (t.below(65536) as i64 - 32768) * 6,
                2 => (t.below(65536) as i64 - 32768) * 3000,
                3 => [86400i64, -86400, 3600, -3600, 60, -60][t.below(6)] + t.below(3) as i64 - 1,
                4 => -(t.below(65536) as i64) * 40000,
                _ => (t.below(65536) as i64) * 40000,
            };
            let ofs = (t.below(105) as i64 - 48) * 900;
            grid_case(now, d, ofs, t.chance(50))
        },
        |c, obs| {
            let nt = c.why.contains("local date") || c.why.starts_with("to = now+0s") || c.why.starts_with("to = now+1s") || c.why.starts_with("to = now-1s");
            oracle(c, obs, nt, false)
        },
    );
    let mono_opts = {
        let mut o = Opts::base();
        o.inline = true;
        o.nested_unwrap = true;
        o.odd_conditions = false;
        o
    };
    ctx.random(
        "monotonic",
        300,
        60_000,
        3_000_000,
        |t| {
            let (doc, spell) = astgen::gen_doc(t, &mono_opts);
            MonoCase { doc, spell, targets: t.below(8) as u8 }
        },
        mono_oracle,
    );
    cli_zones(ctx);
}

/// The binary with the same current instant written in several zones, under several TZ settings.
fn cli_zones(ctx: &mut Ctx) {
    if ctx.failed() {
        return;
    }
    if !cli_available() {
        ctx.inconclusive = Some("chiritori binary not built (bin/build cli)".into());
        return;
    }
    let mut n = 0u64;
    let src = "a<!-- <time-limited to=\"2024-03-01 09:00:00\"> -->X<!-- </time-limited> -->b";
    let t0 = epoch(2024, 3, 1, 0, 0, 0); // == 2024-03-01 09:00:00 at +09:00
    // (whole seconds since the epoch, fraction text, expected): sub-second instants just before expiry are still before it
    let instants: Vec<(i64, &str, bool)> = vec![(t0 - 1, "", false), (t0, "", true), (t0 + 1, "", true), (t0 - 1, ".5", false), (t0 - 1, ".999999999", false), (t0 - 1, ".499", false), (t0, ".000000001", true), (t0 - 2, ".75", false)];
    for (now, frac, expect_removed) in instants {
        for zone in [0i64, 9 * 3600, -8 * 3600, 5 * 3600 + 1800, -(9 * 3600 + 1800)] {
            for tz in [Some("UTC"), Some("Asia/Tokyo"), Some("America/Los_Angeles"), None] {
                let cur = {
                    let base = rfc3339(now, zone);
                    // insert the fraction behind the seconds (position 19 of YYYY-MM-DDTHH:MM:SS)
                    format!("{}{}{}", &base[..19], frac, &base[19..])
                };
                let args = vec!["--time-limited-time-offset=+09:00".to_string(), format!("--time-limited-current={cur}")];
                let out = match run_cli(&args, Some(src.as_bytes()), &[("TZ", tz)], None) {
                    Ok(o) => o,
                    Err(e) => {
                        ctx.inconclusive = Some(e);
                        return;
                    }
                };
                n += 1;
                let text = String::from_utf8_lossy(&out.stdout).to_string();
                let removed = text == "ab";
                if out.status != 0 || (!removed && text != src) || removed != expect_removed {
                    let case = json!({"args": args, "stdin": src, "TZ": tz, "expect_removed": expect_removed});
                    ctx.failure = Some(Failure { broken: false, sub: "cli-zones".into(), case, tape: None, message: format!("chiritori {:?} with TZ={:?}: exit {}, output {:?}; the element expires at 2024-03-01 09:00:00 +09:00 and the given instant is {} UTC, so it must be {}", args, tz, out.status, text, format!("{}{}", wall(now, 0), frac), if expect_removed { "removed" } else { "kept" }) });
                    return;
                }
            }
        }
    }
    ctx.stats.evaluations += n;
    ctx.stats.counted += n;
    ctx.subs_run.push(json!({"sub": "cli-zones", "process_runs": n}));
}

pub fn replay(sub: &str, case: &Value, obs: &mut Obs) -> Result<Verdict, String> {
    match sub {
        "monotonic" => replay_case::<MonoCase, _>(case, obs, |c, obs| {
            obs.eval();
            mono_oracle(c, obs)
        }),
        "cli-zones" => {
            let args: Vec<String> = serde_json::from_value(case["args"].clone()).map_err(|e| e.to_string())?;
            let stdin = case["stdin"].as_str().unwrap_or("").to_string();
            let tz = case["TZ"].as_str();
            let out = run_cli(&args, Some(stdin.as_bytes()), &[("TZ", tz)], None)?;
            let text = String::from_utf8_lossy(&out.stdout).to_string();
            let expect = case["expect_removed"].as_bool().unwrap_or(false);
            let removed = text == "ab";
            if out.status != 0 || (!removed && text != stdin) || removed != expect {
                Ok(Verdict::Fail(format!("chiritori {args:?} TZ={tz:?}: exit {} output {text:?}, expected the element to be {}", out.status, if expect { "removed" } else { "kept" })))
            } else {
                Ok(Verdict::Pass)
            }
        }
        "several-elements" => {
            // to_attr holds the whole document
            let c: TimeCase = serde_json::from_value(case.clone()).map_err(|e| e.to_string())?;
            let cfg = Cfg { ds: "<".into(), de: ">".into(), tl_tag: "tl".into(), rm_tag: "rm".into(), now: c.now, offset: c.offset.clone(), targets: vec![] };
            let out = call_clean(&c.to_attr, &cfg)?;
            // expected: every element whose `to` is one of the well-formed past values disappears, nothing else
            Ok(if out.contains(">G<") { Verdict::Fail(format!("expired element survives: {out:?}")) } else if c.to_attr.matches(">M<").count() != out.matches(">M<").count() && !c.to_attr.contains("x<tl") { Verdict::Fail(format!("an element with a malformed / future `to` was removed: {:?} -> {out:?}", c.to_attr)) } else { Verdict::Pass })
        }
        _ => replay_case::<TimeCase, _>(case, obs, |c, obs| {
            obs.eval();
            oracle(c, obs, true, false)
        }),
    }
}
