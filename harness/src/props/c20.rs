//! C20: the CLI is a faithful wrapper (I/O paths, config file, defaults, environment).

use crate::astgen::{self, Opts, NAMES};
use crate::cli::{cli_available, rfc3339, run_cli};
use crate::engine::*;
use crate::refmodel::ref_tags;
use crate::util::*;
use serde::{Deserialize, Serialize};
use serde_json::{json, Value};
use std::path::PathBuf;
use std::sync::atomic::{AtomicU64, Ordering};

#[derive(Serialize, Deserialize, Clone, Hash, Debug, PartialEq, Eq)]
pub enum Mode {
    Clean,
    List,
    ListAll,
}

#[derive(Serialize, Deserialize, Clone, Hash, Debug)]
pub struct CliCase {
    pub src: String,
    /// None = the option is omitted (documented default applies)
    pub ds: Option<String>,
    pub de: Option<String>,
    pub tl_tag: Option<String>,
    pub rm_tag: Option<String>,
    pub offset: Option<String>,
    pub now: i64,
    /// zone (seconds east) in which the current time is written on the command line
    pub now_zone: i64,
    pub targets_flags: Vec<String>,
    /// target names in a config file, CRLF line ends?, trailing line break?
    pub targets_file: Option<(Vec<String>, bool, bool)>,
    pub mode: Mode,
    pub json: bool,
    /// pass --list-json although the mode is Clean (must be ignored)
    pub stray_json: bool,
}

const DEF_DS: &str = "<!-- <";
const DEF_DE: &str = "> -->";
const DEF_TL: &str = "time-limited";
const DEF_RM: &str = "removal-marker";
const DEF_OFFSET: &str = "+00:00";

impl CliCase {
    pub fn cfg(&self) -> Cfg {
        let mut targets: Vec<String> = vec![];
        if let Some((names, _, _)) = &self.targets_file {
            targets.extend(names.iter().cloned());
        }
        targets.extend(self.targets_flags.iter().cloned());
        Cfg {
            ds: self.ds.clone().unwrap_or(DEF_DS.into()),
            de: self.de.clone().unwrap_or(DEF_DE.into()),
            tl_tag: self.tl_tag.clone().unwrap_or(DEF_TL.into()),
            rm_tag: self.rm_tag.clone().unwrap_or(DEF_RM.into()),
            now: self.now,
            offset: self.offset.clone().unwrap_or(DEF_OFFSET.into()),
            targets,
        }
    }
    fn base_args(&self, cfgfile: Option<&str>) -> Vec<String> {
        let mut a = vec![];
        if let Some(v) = &self.ds {
            a.push(format!("--delimiter-start={v}"));
        }
        if let Some(v) = &self.de {
            a.push(format!("--delimiter-end={v}"));
        }
        if let Some(v) = &self.tl_tag {
            a.push(format!("--time-limited-tag-name={v}"));
        }
        if let Some(v) = &self.rm_tag {
            a.push(format!("--removal-marker-tag-name={v}"));
        }
        if let Some(v) = &self.offset {
            a.push(format!("--time-limited-time-offset={v}"));
        }
        a.push(format!("--time-limited-current={}", rfc3339(self.now, self.now_zone)));
        for t in &self.targets_flags {
            a.push(format!("--removal-marker-target-name={t}"));
        }
        if let Some(f) = cfgfile {
            a.push(format!("--removal-marker-target-config={f}"));
        }
        match self.mode {
            Mode::Clean => {
                if self.stray_json {
                    a.push("--list-json".into());
                }
            }
            Mode::List => {
                a.push("--list".into());
                if self.json {
                    a.push("--list-json".into());
                }
            }
            Mode::ListAll => {
                a.push("--list-all".into());
                if self.json {
                    a.push("--list-json".into());
                }
            }
        }
        a
    }
}

static COUNTER: AtomicU64 = AtomicU64::new(0);

fn scratch_dir() -> PathBuf {
    let n = COUNTER.fetch_add(1, Ordering::SeqCst);
    let d = PathBuf::from(format!("{}/.build/tmp/c20-{}-{}", crate::engine::verif_dir(), std::process::id(), n));
    let _ = std::fs::create_dir_all(&d);
    d
}

pub fn oracle(c: &CliCase, obs: &mut Obs) -> Verdict {
    let cfg = c.cfg();
    // expected: the library result for the corresponding configuration
    let expected = match c.mode {
        Mode::Clean => call_clean(&c.src, &cfg),
        Mode::List => call_list(&c.src, &cfg, false, c.json),
        Mode::ListAll => call_list(&c.src, &cfg, true, c.json),
    };
    let expected = match expected {
        Ok(e) => e,
        Err(p) => return Verdict::Fail(format!("the library call itself failed: {p}\n  src = {:?}", c.src)),
    };
    let dir = scratch_dir();
    let result = run_variants(c, &expected, &dir, obs);
    let _ = std::fs::remove_dir_all(&dir);
    result
}

fn run_variants(c: &CliCase, expected: &str, dir: &std::path::Path, obs: &mut Obs) -> Verdict {
    let input = dir.join("input.src");
    if std::fs::write(&input, &c.src).is_err() {
        return Verdict::Broken("cannot write scratch input".into());
    }
    let cfgfile = c.targets_file.as_ref().map(|(names, crlf, trailing)| {
        let p = dir.join("targets.txt");
        let nl = if *crlf { "\r\n" } else { "\n" };
        let mut text = names.join(nl);
        if *trailing && !names.is_empty() {
            text.push_str(nl);
        }
        let _ = std::fs::write(&p, text);
        p.display().to_string()
    });
    let base = c.base_args(cfgfile.as_deref());
    let describe = |args: &[String], extra: &str| format!("chiritori {:?} {extra}", args);
    let fail = |what: String| Verdict::Fail(format!("{what}\n  src = {:?}\n  expected (library result for the corresponding configuration) = {:?}", truncate(&c.src, 1200), truncate(expected, 1200)));
    let mut runs = 0u64;
    // variant 1: --filename -> stdout, under several environments
    let envs: Vec<Vec<(&str, Option<&str>)>> = vec![
        vec![],
        vec![("TZ", Some("Asia/Tokyo")), ("LANG", Some("ja_JP.UTF-8"))],
        vec![("TZ", Some("America/Los_Angeles")), ("LC_ALL", Some("C"))],
        vec![("TZ", None), ("LANG", None), ("LC_ALL", None)],
        vec![("TZ", Some("UTC")), ("LC_ALL", Some("en_US.UTF-8"))],
    ];
    for env in &envs {
        let mut args = base.clone();
        args.push(format!("--filename={}", input.display()));
        match run_cli(&args, None, env, None) {
            Err(e) => return Verdict::Broken(e),
            Ok(o) => {
                runs += 1;
                if o.status != 0 {
                    return fail(format!("{} with env {:?} exited with status {} (stderr: {})", describe(&args, ""), env, o.status, truncate(&o.stderr, 300)));
                }
                if o.stdout != expected.as_bytes() {
                    return fail(format!("{} with env {:?} printed {:?}", describe(&args, ""), env, truncate(&String::from_utf8_lossy(&o.stdout), 1200)));
                }
            }
        }
    }
    // variant 2: stdin -> stdout
    match run_cli(&base, Some(c.src.as_bytes()), &[], None) {
        Err(e) => return Verdict::Broken(e),
        Ok(o) => {
            runs += 1;
            if o.status != 0 || o.stdout != expected.as_bytes() {
                return fail(format!("{} reading standard input: exit {}, printed {:?}", describe(&base, ""), o.status, truncate(&String::from_utf8_lossy(&o.stdout), 1200)));
            }
        }
    }
    // variant 3: --filename -> --output (new file)
    let outp = dir.join("out.txt");
    {
        let mut args = base.clone();
        args.push(format!("--filename={}", input.display()));
        args.push(format!("--output={}", outp.display()));
        match run_cli(&args, None, &[], None) {
            Err(e) => return Verdict::Broken(e),
            Ok(o) => {
                runs += 1;
                let written = std::fs::read(&outp).unwrap_or_default();
                if o.status != 0 || written != expected.as_bytes() {
                    return fail(format!("{}: exit {}, stdout {:?}, output file contains {:?}", describe(&args, ""), o.status, truncate(&String::from_utf8_lossy(&o.stdout), 300), truncate(&String::from_utf8_lossy(&written), 1200)));
                }
            }
        }
    }
    // variant 4: --output names the input file (a copy), and stdin -> --output
    let inplace = dir.join("inplace.src");
    let _ = std::fs::write(&inplace, &c.src);
    {
        let mut args = base.clone();
        args.push(format!("--filename={}", inplace.display()));
        args.push(format!("--output={}", inplace.display()));
        match run_cli(&args, None, &[], None) {
            Err(e) => return Verdict::Broken(e),
            Ok(o) => {
                runs += 1;
                let written = std::fs::read(&inplace).unwrap_or_default();
                if o.status != 0 || written != expected.as_bytes() {
                    return fail(format!("{} (output = input file): exit {}, file contains {:?}", describe(&args, ""), o.status, truncate(&String::from_utf8_lossy(&written), 1200)));
                }
            }
        }
    }
    {
        let outp2 = dir.join("out2.txt");
        let mut args = base.clone();
        args.push(format!("--output={}", outp2.display()));
        match run_cli(&args, Some(c.src.as_bytes()), &[], None) {
            Err(e) => return Verdict::Broken(e),
            Ok(o) => {
                runs += 1;
                let written = std::fs::read(&outp2).unwrap_or_default();
                if o.status != 0 || written != expected.as_bytes() {
                    return fail(format!("{} reading standard input: exit {}, output file contains {:?}", describe(&args, ""), o.status, truncate(&String::from_utf8_lossy(&written), 1200)));
                }
            }
        }
    }
    // variant 4b: short options (-f, -o, -l) with separate values
    {
        let outp3 = dir.join("out3.txt");
        let mut args: Vec<String> = base.iter().map(|a| if a == "--list" { "-l".to_string() } else { a.clone() }).collect();
        args.push("-f".into());
        args.push(input.display().to_string());
        args.push("-o".into());
        args.push(outp3.display().to_string());
        match run_cli(&args, None, &[], None) {
            Err(e) => return Verdict::Broken(e),
            Ok(o) => {
                runs += 1;
                let written = std::fs::read(&outp3).unwrap_or_default();
                if o.status != 0 || written != expected.as_bytes() {
                    return fail(format!("{} (short options): exit {}, output file contains {:?}", describe(&args, ""), o.status, truncate(&String::from_utf8_lossy(&written), 1200)));
                }
            }
        }
    }
    // variant 5: the config file is equivalent to repeating the flag per line
    if let Some((names, _, _)) = &c.targets_file {
        if names.iter().all(|n| !n.is_empty()) || true {
            let mut c2 = c.clone();
            c2.targets_file = None;
            c2.targets_flags = names.iter().cloned().chain(c.targets_flags.iter().cloned()).collect();
            let mut args = c2.base_args(None);
            args.push(format!("--filename={}", input.display()));
            match run_cli(&args, None, &[], None) {
                Err(e) => return Verdict::Broken(e),
                Ok(o) => {
                    runs += 1;
                    if o.status != 0 || o.stdout != expected.as_bytes() {
                        return fail(format!("{} (config file lines given as flags instead): exit {}, printed {:?}", describe(&args, ""), o.status, truncate(&String::from_utf8_lossy(&o.stdout), 1200)));
                    }
                }
            }
        }
    }
    // variant 6: omitted options == explicit documented defaults
    {
        let mut c3 = c.clone();
        c3.ds = Some(c.ds.clone().unwrap_or(DEF_DS.into()));
        c3.de = Some(c.de.clone().unwrap_or(DEF_DE.into()));
        c3.tl_tag = Some(c.tl_tag.clone().unwrap_or(DEF_TL.into()));
        c3.rm_tag = Some(c.rm_tag.clone().unwrap_or(DEF_RM.into()));
        c3.offset = Some(c.offset.clone().unwrap_or(DEF_OFFSET.into()));
        let mut args = c3.base_args(cfgfile.as_deref());
        args.push(format!("--filename={}", input.display()));
        match run_cli(&args, None, &[], None) {
            Err(e) => return Verdict::Broken(e),
            Ok(o) => {
                runs += 1;
                if o.status != 0 || o.stdout != expected.as_bytes() {
                    return fail(format!("{} (all defaults spelled out): exit {}, printed {:?}", describe(&args, ""), o.status, truncate(&String::from_utf8_lossy(&o.stdout), 1200)));
                }
            }
        }
    }
    obs.evals(runs.saturating_sub(1));
    obs.max("process-runs-per-case", runs);
    let non_default = c.ds.is_some() || c.tl_tag.is_some() || c.offset.is_some() || !c.targets_flags.is_empty() || c.targets_file.is_some() || c.mode != Mode::Clean;
    let changed = c.mode != Mode::Clean || expected != c.src;
    if non_default && changed {
        if c.targets_file.is_some() && c.targets_flags.is_empty() {
            obs.class("targets-from-file-only");
        }
        if c.targets_file.is_some() && !c.targets_flags.is_empty() {
            obs.class("targets-from-file-and-flags");
        }
        if let Some((_, true, _)) = &c.targets_file {
            obs.class("config-file-crlf");
        }
        match c.mode {
            Mode::Clean => obs.class("mode-clean"),
            Mode::List => obs.class(if c.json { "mode-list-json" } else { "mode-list" }),
            Mode::ListAll => obs.class(if c.json { "mode-list-all-json" } else { "mode-list-all" }),
        }
        if c.ds.is_none() {
            obs.class("default-delimiters");
        }
        obs.nontrivial(c, || json!({"args": base, "src": c.src, "targets_file": c.targets_file}));
    }
    Verdict::Pass
}

pub fn gen(t: &mut Tape) -> CliCase {
    let pairs: &[(&str, &str)] = &[("<!-- <", "> -->"), ("<", ">"), ("/* <", "> */"), ("[[", "]]"), ("// --", "-- //"), ("「", "」"), ("{%", "%}"), ("\\n{", "}"), ("\\t[", "\\]"), ("$'", "'$")];
    let names: &[(&str, &str)] = &[("time-limited", "removal-marker"), ("tl", "rm"), ("期限", "目印"), ("t-l", "marker"), ("\\tl", "r\\n")];
    let pi = t.below(pairs.len());
    let ni = t.below(names.len());
    let explicit_delims = pi != 0 || t.chance(30);
    let explicit_names = ni != 0 || t.chance(30);
    let mut o = Opts::base();
    o.delims = vec![pairs[pi]];
    o.inline = true;
    o.nested_unwrap = true;
    o.max_top = 4;
    let (doc, mut sp) = astgen::gen_doc(t, &o);
    sp.tl = names[ni].0.into();
    sp.rm = names[ni].1.into();
    let r = astgen::render(&doc, &sp);
    let acfg = astgen::gen_acfg(t);
    // targets: the abstract target set, distributed over flags and file, plus distractors
    let tnames: Vec<String> = NAMES.iter().enumerate().filter(|(i, _)| acfg.targets & (1 << i) != 0).map(|(_, n)| n.to_string()).collect();
    let mut flags = vec![];
    let mut file = vec![];
    for n in tnames {
        match t.below(3) {
            0 => flags.push(n),
            1 => file.push(n),
            _ => {
                flags.push(n.clone());
                file.push(n);
            }
        }
    }
    for _ in 0..t.below(3) {
        let d = t.s(&["zz", "A", "ab", "feature1", "x y", "vec![]", "日本", " a", "a ", "b ", " c", "\tb", "a\t", "a,b", "b,c", "a,", ",c", "a;b", "a:b"]).to_string();
        if t.chance(50) {
            flags.push(d)
        } else {
            file.push(d)
        }
    }
    let use_file = !file.is_empty() || t.chance(15);
    let targets_file = if use_file { Some((file, t.chance(40), t.chance(60))) } else { None };
    let offset = match t.below(4) {
        0 => None,
        1 => Some("+00:00".to_string()),
        2 => Some("+09:00".to_string()),
        _ => Some("-0800".to_string()),
    };
    let mode = match t.below(5) {
        0 | 1 => Mode::Clean,
        2 | 3 => Mode::List,
        _ => Mode::ListAll,
    };
    let zone = [0i64, 9 * 3600, -8 * 3600, 19800][t.below(4)];
    CliCase {
        src: r.src,
        ds: if explicit_delims { Some(sp.ds.clone()) } else { None },
        de: if explicit_delims { Some(sp.de.clone()) } else { None },
        tl_tag: if explicit_names { Some(sp.tl.clone()) } else { None },
        rm_tag: if explicit_names { Some(sp.rm.clone()) } else { None },
        offset,
        now: astgen::now_pool(acfg.now_idx),
        now_zone: zone,
        targets_flags: flags,
        targets_file,
        mode,
        json: t.chance(50),
        stray_json: false,
    }
}

pub fn check(ctx: &mut Ctx) {
    ctx.rule = "cases = (AST document, option combination): delimiters / tag names default-omitted, default-explicit or other pool entries (incl. multi-byte), offset omitted / +00:00 / +09:00 / -0800, current time as RFC 3339 in 4 zone spellings, targets via flags / config file (LF or CRLF, with or without trailing line break) / both plus distractor names, mode clean / --list / --list-all each with or without --list-json (--list-json without a list mode is unspecified and not generated). Each case runs the binary (rebuilt from /repo) 10-11 times (incl. the short options -f / -o / -l): --filename -> stdout under 5 TZ/locale environments, stdin -> stdout, --filename -> --output, --output == input file, stdin -> --output, config lines as flags, all defaults spelled out. Oracle: exit status 0 and output byte-identical to the library result for the corresponding configuration (targets = file lines united with flags; omitted options = documented defaults). Non-trivial = a non-default option or list mode, and the result differs from the input.".into();
    ctx.assume("arguments are passed in --opt=value form; the current time always carries an explicit offset (without one the binary silently uses the wall clock); target names contain no line breaks");
    ctx.assume("\"any environment\" is sampled (TZ in {UTC, Asia/Tokyo, America/Los_Angeles, unset}, LANG / LC_ALL in {C, en_US.UTF-8, ja_JP.UTF-8, unset}), not exhausted");
    if !cli_available() {
        ctx.inconclusive = Some("chiritori binary not built (bin/build cli)".into());
        return;
    }
    for c in ["targets-from-file-only", "targets-from-file-and-flags", "config-file-crlf", "mode-clean", "mode-list", "mode-list-json", "mode-list-all", "mode-list-all-json", "default-delimiters"] {
        ctx.require_class(c);
    }
    ctx.replay_corpus(replay);
    ctx.max_shrink_iters = 150;
    ctx.random("cli-vs-library", 420, 5_000, 60_000, gen, oracle);
    defaults_contribute_nothing(ctx);
    offset_boundaries(ctx);
    let _ = ref_tags;
}

/// The offset option reaches the library unchanged: for every quarter-hour offset -12:00..+14:00 in both spellings, an element
/// that expires one second before / exactly at / one second after the current instant gets the library's decision.
fn offset_boundaries(ctx: &mut Ctx) {
    if ctx.failed() {
        return;
    }
    let now = epoch(2024, 6, 1, 15, 0, 0);
    let mut n = 0u64;
    for q in -48i64..=56 {
        let ofs = q * 900;
        for colon in [true, false] {
            let spelling = offset_text(ofs, colon);
            for d in [-1i64, 0, 1] {
                let to = wall(now + d, ofs);
                let src = format!("a<!-- <time-limited to=\"{to}\"> -->X<!-- </time-limited> -->b\n");
                let cfg = Cfg { ds: DEF_DS.into(), de: DEF_DE.into(), tl_tag: DEF_TL.into(), rm_tag: DEF_RM.into(), now, offset: spelling.clone(), targets: vec![] };
                let expected = match call_clean(&src, &cfg) {
                    Ok(e) => e,
                    Err(p) => {
                        ctx.failure = Some(Failure { broken: false, sub: "offset-boundaries".into(), case: json!({"src": src, "offset": spelling}), tape: None, message: format!("the library call itself failed: {p}") });
                        return;
                    }
                };
                let args = vec![format!("--time-limited-time-offset={spelling}"), format!("--time-limited-current={}", rfc3339(now, if q % 2 == 0 { 0 } else { 9 * 3600 }))];
                let out = match run_cli(&args, Some(src.as_bytes()), &[], None) {
                    Ok(o) => o,
                    Err(e) => {
                        ctx.inconclusive = Some(e);
                        return;
                    }
                };
                n += 1;
                let got = String::from_utf8_lossy(&out.stdout).to_string();
                if out.status != 0 || got != expected {
                    ctx.failure = Some(Failure { broken: false, sub: "offset-boundaries".into(), case: json!({"args": args, "stdin": src, "expect_stdout": expected}), tape: None, message: format!("chiritori {:?} on {:?}: exit {} output {:?}; the library gives {:?} for offset {:?} at the same instant (to = now{:+}s)", args, src, out.status, got, expected, spelling, d) });
                    return;
                }
            }
        }
    }
    // instants around daylight-saving transitions of the zones in the quantifier (the explicit current time is an instant:
    // the process zone must not shift it), elements expiring half an hour before / after
    for now in [epoch(2024, 11, 3, 8, 30, 0), epoch(2024, 11, 3, 9, 30, 0), epoch(2024, 11, 3, 8, 59, 59), epoch(2024, 3, 10, 9, 30, 0), epoch(2024, 3, 10, 10, 30, 0), epoch(2024, 10, 27, 0, 30, 0)] {
        for zone in [0i64, -7 * 3600, -8 * 3600, 9 * 3600] {
            for d in [-1800i64, 1800, 3000, -3000] {
                let to = wall(now + d, 0);
                let src = format!("a<!-- <time-limited to=\"{to}\"> -->X<!-- </time-limited> -->b\n");
                let cfg = Cfg { ds: DEF_DS.into(), de: DEF_DE.into(), tl_tag: DEF_TL.into(), rm_tag: DEF_RM.into(), now, offset: DEF_OFFSET.into(), targets: vec![] };
                let Ok(expected) = call_clean(&src, &cfg) else { continue };
                for tz in [Some("UTC"), Some("Asia/Tokyo"), Some("America/Los_Angeles"), None] {
                    let args = vec![format!("--time-limited-current={}", rfc3339(now, zone))];
                    let out = match run_cli(&args, Some(src.as_bytes()), &[("TZ", tz)], None) {
                        Ok(o) => o,
                        Err(e) => {
                            ctx.inconclusive = Some(e);
                            return;
                        }
                    };
                    n += 1;
                    let got = String::from_utf8_lossy(&out.stdout).to_string();
                    if out.status != 0 || got != expected {
                        ctx.failure = Some(Failure { broken: false, sub: "offset-boundaries".into(), case: json!({"args": args, "stdin": src, "expect_stdout": expected, "TZ": tz}), tape: None, message: format!("chiritori {:?} with TZ={:?} on {:?}: exit {} output {:?}; the library gives {:?} (instant around a daylight-saving transition, to = now{:+}s)", args, tz, src, out.status, got, expected, d) });
                        return;
                    }
                }
            }
        }
    }
    ctx.stats.evaluations += n;
    ctx.stats.counted += n;
    ctx.subs_run.push(json!({"sub": "offset-boundaries", "process_runs": n, "rule": "105 quarter-hour offsets x 2 spellings x to = now-1s / now / now+1s: the binary's output equals the library's"}));
}

/// Option defaults contribute no targets: a marker named like any `[default: ...]` string of --help (or
/// like a few code-looking strings) is untouched when no target option is given.
fn defaults_contribute_nothing(ctx: &mut Ctx) {
    if ctx.failed() {
        return;
    }
    let defaults = match crate::props::c06::help_defaults() {
        Ok(d) => d,
        Err(e) => {
            ctx.inconclusive = Some(e);
            return;
        }
    };
    let mut probes: Vec<String> = defaults.iter().flat_map(|d| vec![d.clone(), d.trim_matches('"').to_string()]).collect();
    probes.extend(["vec![]", "[]", "Vec::new()", "None", "default", "", "a"].iter().map(|s| s.to_string()));
    probes.sort();
    probes.dedup();
    let mut n = 0u64;
    for q in probes {
        if q.contains('"') {
            continue;
        }
        for mode in [Mode::Clean, Mode::ListAll] {
            let c = CliCase {
                src: format!("x\n<!-- <removal-marker name=\"{q}\"> -->\nX\n<!-- </removal-marker> -->\ny\n"),
                ds: None,
                de: None,
                tl_tag: None,
                rm_tag: None,
                offset: None,
                now: crate::util::epoch(2024, 6, 1, 0, 0, 0),
                now_zone: 0,
                targets_flags: vec![],
                targets_file: None,
                mode: mode.clone(),
                json: true,
                stray_json: false,
            };
            let mut st = Stats::new();
            let v = {
                let mut obs = Obs::new(&mut st);
                oracle(&c, &mut obs)
            };
            n += 1;
            match v {
                Verdict::Pass => {}
                Verdict::Fail(m) => {
                    ctx.failure = Some(Failure { broken: false, sub: "cli-vs-library".into(), case: serde_json::to_value(&c).unwrap(), tape: None, message: format!("no target option is given, so the target set must be empty (defaults shown by --help: {:?}): {m}", defaults) });
                    return;
                }
                Verdict::Broken(m) => {
                    ctx.inconclusive = Some(m);
                    return;
                }
            }
            ctx.stats.merge(st);
        }
    }
    ctx.stats.evaluations += n;
    ctx.stats.counted += n;
    ctx.subs_run.push(json!({"sub": "defaults-contribute-nothing", "cases": n, "help_defaults": defaults}));
}

pub fn replay(sub: &str, case: &Value, obs: &mut Obs) -> Result<Verdict, String> {
    if sub == "offset-boundaries" {
        let args: Vec<String> = serde_json::from_value(case["args"].clone()).map_err(|e| e.to_string())?;
        let stdin = case["stdin"].as_str().unwrap_or("").to_string();
        let expect = case["expect_stdout"].as_str().unwrap_or("").to_string();
        let tz = case["TZ"].as_str();
        let envs: Vec<(&str, Option<&str>)> = if case.get("TZ").is_some() { vec![("TZ", tz)] } else { vec![] };
        let out = run_cli(&args, Some(stdin.as_bytes()), &envs, None)?;
        let got = String::from_utf8_lossy(&out.stdout).to_string();
        obs.eval();
        return Ok(if out.status != 0 || got != expect { Verdict::Fail(format!("chiritori {args:?} on {stdin:?}: exit {} output {got:?}, the library gives {expect:?}", out.status)) } else { Verdict::Pass });
    }
    replay_case::<CliCase, _>(case, obs, |c, obs| {
        obs.eval();
        oracle(c, obs)
    })
}
