//! C15 (list = what clean deletes), C16 (rendering of list items), C17 (list_all = Ready + outstanding Pending).

use crate::astgen::{self, Extent, Opts, Rendered, Truth};
use crate::engine::*;
use crate::props::clean::AstCase;
use crate::refmodel::{self, Decision};
use crate::util::*;
use crate::vfail;
use serde_json::{json, Value};

#[derive(Clone, Copy, PartialEq, Eq, Debug)]
pub enum Which {
    C15,
    C16,
    C17,
}

#[derive(Clone, Debug, PartialEq, Eq)]
pub struct Region {
    pub start: usize,
    pub end: usize,
    pub ready: bool,
}

fn show(src: &str, got: &str) -> String {
    format!("\n  src = {:?}\n  got = {:?}", truncate(src, 1500), truncate(got, 1500))
}

pub fn opts(which: Which) -> Opts {
    let mut o = Opts::base();
    o.delims = vec![("<", ">"), ("<!-- <", "> -->"), ("/* <", "> */"), ("[[", "]]"), ("// --", "-- //"), ("{%", "%}")];
    o.inline = true;
    o.nested_unwrap = true;
    o.tags_on_wrappers = false;
    o.blank_wrappers = false;
    o.unwrap_tags_shared = false;
    o.first_line_empty_pct = if which == Which::C16 { 15 } else { 0 };
    o.ascii_left = true;
    o.unwrap_pct = 35;
    // two block elements whose tags share a line (`<a> <b>` … `</b> </a>`); with an unwrap-block parent this leaves the domain and is counted
    o.join_pct = 8;
    o.multiline_tag_pct = 12;
    o.close_attr_pct = 10;
    o.bom_pct = 3;
    o
}

pub fn gen(t: &mut Tape, which: Which) -> AstCase {
    let o = opts(which);
    let (doc, spell) = astgen::gen_doc(t, &o);
    let cfg = astgen::gen_acfg(t);
    AstCase { doc, spell, cfg }
}

/// Expected regions in source order, by construction.
pub fn regions(r: &Rendered, tr: &Truth, all: bool) -> Vec<Region> {
    let mut out = vec![];
    for (i, e) in r.elems.iter().enumerate() {
        // ancestors
        let (mut in_ready_whole, mut in_pending_whole) = (false, false);
        let mut p = e.parent;
        while let Some(q) = p {
            if matches!(tr.extents[q], Extent::Whole(_)) {
                match tr.decisions[q] {
                    Decision::Ready => in_ready_whole = true,
                    Decision::Pending => in_pending_whole = true,
                    _ => {}
                }
            }
            p = r.elems[q].parent;
        }
        if in_ready_whole {
            continue;
        }
        let ready = match tr.decisions[i] {
            Decision::Ready => true,
            Decision::Pending => {
                if !all || in_pending_whole {
                    continue;
                }
                false
            }
            _ => continue,
        };
        match &tr.extents[i] {
            Extent::Whole((a, b)) => out.push(Region { start: *a, end: *b, ready }),
            Extent::Parts(h, t) => {
                out.push(Region { start: h.0, end: h.1, ready });
                out.push(Region { start: t.0, end: t.1, ready });
            }
            _ => {}
        }
    }
    out.sort_by_key(|r| r.start);
    out
}

fn width(s: &str) -> usize {
    s.bytes().map(|b| if b == b'\t' { 4 } else { 1 }).sum()
}

/// Strip SGR escape sequences (ESC [ ... m). Returns the plain text and, per byte of it, the active SGR code
/// (None = no colour / after a reset).
pub fn strip_ansi(s: &str) -> (String, Vec<Option<u32>>) {
    let b = s.as_bytes();
    let mut out = Vec::with_capacity(b.len());
    let mut mask = Vec::with_capacity(b.len());
    let mut active: Option<u32> = None;
    let mut i = 0;
    while i < b.len() {
        if b[i] == 0x1b && i + 1 < b.len() && b[i + 1] == b'[' {
            let mut j = i + 2;
            while j < b.len() && (b[j].is_ascii_digit() || b[j] == b';') {
                j += 1;
            }
            if j < b.len() && b[j] == b'm' {
                let code = std::str::from_utf8(&b[i + 2..j]).unwrap_or("");
                let first = code.split(';').next().unwrap_or("");
                active = match first.parse::<u32>() {
                    Ok(0) | Err(_) => None,
                    Ok(n) => Some(n),
                };
                i = j + 1;
                continue;
            }
        }
        out.push(b[i]);
        mask.push(active);
        i += 1;
    }
    (String::from_utf8(out).unwrap_or_default(), mask)
}

/// Locate every JSON code block in the colour-stripped pretty output, in order. Returns byte offsets.
fn locate_items(plain: &str, blocks: &[&str]) -> Result<Vec<usize>, String> {
    let mut pos = 0;
    let mut out = vec![];
    for (k, b) in blocks.iter().enumerate() {
        match plain[pos..].find(b) {
            Some(p) => {
                out.push(pos + p);
                pos += p + b.len();
            }
            None => return Err(format!("the pretty form (colour codes stripped) does not contain the code block of JSON item {} at or after the previous item", k + 1)),
        }
    }
    let extra = plain.matches("_start").count();
    if extra != blocks.len() {
        return Err(format!("the pretty form shows {} `_start` markers but the JSON form has {} items", extra, blocks.len()));
    }
    Ok(out)
}

/// Highlighted text of one item: per line the coloured bytes (the `_start` / `‾end` markers excluded), empty lines dropped.
fn highlighted(plain: &str, mask: &[Option<u32>], at: usize, len: usize) -> String {
    let mut lines: Vec<String> = vec![];
    let item = &plain[at..at + len];
    let mut off = at;
    for line in item.split('\n') {
        let lb = line.as_bytes();
        let mut segs: Vec<Vec<u8>> = vec![];
        let mut cur: Option<Vec<u8>> = None;
        for (i, ch) in lb.iter().enumerate() {
            if mask[off + i].is_some() {
                cur.get_or_insert_with(Vec::new).push(*ch);
            } else if let Some(c) = cur.take() {
                segs.push(c);
            }
        }
        if let Some(c) = cur.take() {
            segs.push(c);
        }
        let text: Vec<u8> = segs.into_iter().filter(|g| g != b"_start" && g != "‾end".as_bytes()).flatten().collect();
        if !text.is_empty() {
            lines.push(String::from_utf8(text).unwrap_or_default());
        }
        off += lb.len() + 1;
    }
    lines.join("\n")
}

/// C16 rendering rule, checked without assuming the width of the number column: returns Err(description).
pub fn check_rendering(src: &str, s: usize, e: usize, block: &str) -> Result<(), String> {
    let first = line_of(src, s);
    // first byte of the last removed character (it may be multi-byte)
    let lc = src[..e].char_indices().last().map(|(p, _)| p).unwrap_or(s);
    let last = line_of(src, lc);
    let ls = src[..s].rfind('\n').map(|p| p + 1).unwrap_or(0);
    let les = src[..lc].rfind('\n').map(|p| p + 1).unwrap_or(0);
    let le = src[lc..].find('\n').map(|p| p + lc).unwrap_or(src.len());
    let want_lines: Vec<String> = src[ls..le].split('\n').map(|l| l.replace('\t', "    ")).collect();
    let got: Vec<&str> = block.split('\n').collect();
    if got.len() != want_lines.len() + 2 {
        return Err(format!("the item has {} lines; expected a `_start` line, the {} source lines {}..={} and an `‾end` line", got.len(), want_lines.len(), first, last));
    }
    // width of the number column from the first code line
    let mut w: Option<usize> = None;
    for (i, wl) in want_lines.iter().enumerate() {
        let g = got[i + 1];
        let Some(prefix) = g.strip_suffix(wl.as_str()) else { return Err(format!("code line {} is {:?}; it does not end with the source line (tabs as four spaces) {:?}", first + i, g, wl)) };
        let digits: String = prefix.chars().filter(|c| c.is_ascii_digit()).collect();
        if digits != (first + i).to_string() {
            return Err(format!("code line {:?} is not prefixed by its 1-based number {}", g, first + i));
        }
        let pw = prefix.chars().count();
        match w {
            None => w = Some(pw),
            Some(x) => {
                if x != pw {
                    return Err(format!("the number column is not fixed-width: {x} and {pw} characters"));
                }
            }
        }
    }
    let w = w.unwrap_or(0);
    let want_start = format!("{}_start", " ".repeat(w + width(&src[ls..s])));
    if got[0] != want_start {
        return Err(format!("the start marker line is {:?}, expected {:?} (column of the first removed character, tab = 4)", got[0], want_start));
    }
    let want_end = format!("{}‾end", " ".repeat(w + width(&src[les..lc])));
    if got[got.len() - 1] != want_end {
        return Err(format!("the end marker line is {:?}, expected {:?} (column of the last removed character, tab = 4)", got[got.len() - 1], want_end));
    }
    Ok(())
}

struct Lists {
    r: Rendered,
    tr: Truth,
    cfg: Cfg,
}

fn prepare(c: &AstCase, obs: &mut Obs, which: Which) -> Option<Lists> {
    let r = astgen::render(&c.doc, &c.spell);
    if let Err(why) = astgen::in_domain(&r, &opts(which).domain()) {
        obs.excluded(why);
        return None;
    }
    let cfg = c.cfg.to_cfg(&c.spell);
    let tr = astgen::truth(&r, &c.cfg);
    if tr.undefined {
        obs.excluded("ready-unwrap-with-shared-tag-lines");
        return None;
    }
    if refmodel::ref_tags(&r.src, &c.spell.ds, &c.spell.de).len() != 2 * r.elems.len() {
        obs.excluded("rendering-does-not-tokenize-as-intended");
        return None;
    }
    if r.elems.iter().enumerate().any(|(i, e)| e.open_first_line != e.open_line && tr.decisions[i] == Decision::Ready) {
        obs.class("ready-element-with-multi-line-opening-tag");
    }
    Some(Lists { r, tr, cfg })
}

fn line_ranges(r: &Rendered, regs: &[Region]) -> Vec<(u64, u64, bool)> {
    regs.iter().map(|g| (line_of(&r.src, g.start) as u64, line_of(&r.src, g.end - 1) as u64, g.ready)).collect()
}

// ---- C15 ----------------------------------------------------------------------------------------------------------

pub fn oracle_c15(c: &AstCase, obs: &mut Obs) -> Verdict {
    let Some(l) = prepare(c, obs, Which::C15) else { return Verdict::Pass };
    let (r, tr, cfg) = (&l.r, &l.tr, &l.cfg);
    let exp = regions(r, tr, false);
    let js = match call_list(&r.src, cfg, false, true) {
        Ok(j) => j,
        Err(p) => vfail!("list(JSON) failed: {p}\n  src = {:?}", r.src),
    };
    let items = match parse_items(&js) {
        Ok(i) => i,
        Err(e) => vfail!("{e}{}", show(&r.src, &js)),
    };
    let got: Vec<(u64, u64, bool)> = items.iter().map(|i| (i.first, i.last, i.ready)).collect();
    let want = line_ranges(r, &exp);
    if got != want {
        vfail!("list reports (first line, last line, ready) {:?}, the regions clean deletes are {:?}{}", got, want, show(&r.src, &js));
    }
    // pretty form: highlighted text == region text
    let pretty = match call_list(&r.src, cfg, false, false) {
        Ok(p) => p,
        Err(p) => vfail!("list(pretty) failed: {p}\n  src = {:?}", r.src),
    };
    let (plain, mask) = strip_ansi(&pretty);
    let blocks: Vec<&str> = items.iter().map(|i| i.block.as_str()).collect();
    let at = match locate_items(&plain, &blocks) {
        Ok(a) => a,
        Err(e) => vfail!("{e}{}", show(&r.src, &pretty)),
    };
    let mut highlighted_all: Vec<String> = vec![];
    for (k, g) in exp.iter().enumerate() {
        let hl = highlighted(&plain, &mask, at[k], blocks[k].len());
        let want: String = r.src[g.start..g.end].replace('\t', "    ").split('\n').filter(|l| !l.is_empty()).collect::<Vec<_>>().join("\n");
        if hl != want {
            vfail!("item {} highlights {:?}, the deleted region is {:?}{}", k + 1, hl, want, show(&r.src, &pretty));
        }
        highlighted_all.push(hl);
    }
    // tie to clean without the model: removing the highlighted texts from the source gives clean's text (modulo whitespace)
    let out = match call_clean(&r.src, cfg) {
        Ok(o) => o,
        Err(p) => vfail!("clean panicked: {p}\n  src = {:?}", r.src),
    };
    // work on the tab-expanded source: line structure is unchanged and the highlighted text is tab-expanded too
    let src_x = r.src.replace('\t', "    ");
    let line_start = |line: u64| -> usize {
        let mut pos = 0;
        for _ in 1..line {
            pos = src_x[pos..].find('\n').map(|p| p + pos + 1).unwrap_or(src_x.len());
        }
        pos
    };
    let mut keep = vec![true; src_x.len()];
    let mut cursor = 0usize;
    for (h, it) in highlighted_all.iter().zip(items.iter()) {
        // every highlighted line is located at or after the start of the item's first line, in order
        let mut from = cursor.max(line_start(it.first));
        // hint: the column of the `_start` marker (number column subtracted) tells where on that line the region begins; it is
        // only used when the highlighted text really stands there (the same text may occur earlier on the line: `<tl c> <tl`)
        {
            let ls = line_start(it.first);
            let le = src_x[ls..].find('\n').map(|p| p + ls).unwrap_or(src_x.len());
            let blk: Vec<&str> = it.block.split('\n').collect();
            if blk.len() >= 2 {
                let marker_col = blk[0].chars().take_while(|c| *c == ' ').count();
                let w = blk[1].chars().count().saturating_sub(src_x[ls..le].chars().count());
                if let Some(col) = marker_col.checked_sub(w) {
                    let at = ls + src_x[ls..le].char_indices().nth(col).map(|(b, _)| b).unwrap_or(le - ls);
                    let first_hl = h.split('\n').find(|l| !l.is_empty()).unwrap_or("");
                    if at >= from && !first_hl.is_empty() && src_x[at..].starts_with(first_hl) {
                        from = at;
                    }
                }
            }
        }
        for hl_line in h.split('\n') {
            if hl_line.is_empty() {
                continue;
            }
            match src_x[from..].find(hl_line) {
                Some(p) => {
                    let a0 = from + p;
                    for k in keep.iter_mut().take(a0 + hl_line.len()).skip(a0) {
                        *k = false;
                    }
                    from = a0 + hl_line.len();
                }
                None => vfail!("highlighted text {:?} does not occur at or after line {} of the source{}", truncate(hl_line, 200), it.first, show(&r.src, &pretty)),
            }
        }
        cursor = from;
    }
    let rest = nows(&refmodel::kept_text(&src_x, &keep));
    if rest != nows(&out) {
        vfail!("the source minus the listed regions differs from what clean leaves (modulo whitespace)\n  listed-minus = {:?}\n  clean        = {:?}\n  src = {:?}", truncate(&rest, 600), truncate(&nows(&out), 600), truncate(&r.src, 1200));
    }
    // purity
    let again = call_list(&r.src, cfg, false, true).unwrap_or_default();
    let pretty2 = call_list(&r.src, cfg, false, false).unwrap_or_default();
    if again != js || pretty2 != pretty {
        vfail!("two list calls on the same input differ{}", show(&r.src, &again));
    }
    obs.evals(4);
    if !exp.is_empty() {
        if tr.n_unwrapped > 0 && r.elems.iter().enumerate().any(|(i, e)| tr.decisions[i] == Decision::Ready && e.parent.map(|p| matches!(tr.extents[p], Extent::Parts(..)) && tr.decisions[p] == Decision::Ready).unwrap_or(false)) {
            obs.class("ready-child-inside-unwrapped-body");
        }
        if exp.iter().any(|g| {
            let ls = r.src[..g.start].rfind('\n').map(|p| p + 1).unwrap_or(0);
            g.start > ls
        }) {
            obs.class("region-not-at-column-0");
        }
        if exp.iter().any(|g| g.end == r.src.len()) {
            obs.class("region-ends-at-eof");
        }
        {
            let mut lines_seen = std::collections::HashSet::new();
            if exp.iter().any(|g| !lines_seen.insert(line_of(&r.src, g.start))) {
                obs.class("two-regions-start-on-one-line");
            }
        }
        obs.nontrivial(c, || json!({"src": r.src, "list": got}));
    }
    Verdict::Pass
}

// ---- C17 ----------------------------------------------------------------------------------------------------------

pub fn oracle_c17(c: &AstCase, obs: &mut Obs) -> Verdict {
    let Some(l) = prepare(c, obs, Which::C17) else { return Verdict::Pass };
    let (r, tr, cfg) = (&l.r, &l.tr, &l.cfg);
    let exp_all = regions(r, tr, true);
    let exp_ready = regions(r, tr, false);
    let js_all = match call_list(&r.src, cfg, true, true) {
        Ok(j) => j,
        Err(p) => vfail!("list_all(JSON) failed: {p}\n  src = {:?}", r.src),
    };
    let items_all = match parse_items(&js_all) {
        Ok(i) => i,
        Err(e) => vfail!("{e}{}", show(&r.src, &js_all)),
    };
    let got: Vec<(u64, u64, bool)> = items_all.iter().map(|i| (i.first, i.last, i.ready)).collect();
    let want = line_ranges(r, &exp_all);
    if got != want {
        vfail!("list_all reports (first, last, ready) {:?}, expected {:?}{}", got, want, show(&r.src, &js_all));
    }
    let js = match call_list(&r.src, cfg, false, true) {
        Ok(j) => j,
        Err(p) => vfail!("list(JSON) failed: {p}\n  src = {:?}", r.src),
    };
    let items = match parse_items(&js) {
        Ok(i) => i,
        Err(e) => vfail!("{e}{}", show(&r.src, &js)),
    };
    let ready_sub: Vec<&Item> = items_all.iter().filter(|i| i.ready).collect();
    if ready_sub.len() != items.len() || ready_sub.iter().zip(items.iter()).any(|(a, b)| *a != b) {
        vfail!("the Ready items of list_all differ from the plain list{}", show(&r.src, &js_all));
    }
    if items.len() != exp_ready.len() {
        vfail!("list has {} items, expected {}{}", items.len(), exp_ready.len(), show(&r.src, &js));
    }
    // pretty form: same items (located by their code blocks)
    let pretty = match call_list(&r.src, cfg, true, false) {
        Ok(p) => p,
        Err(p) => vfail!("list_all(pretty) failed: {p}\n  src = {:?}", r.src),
    };
    let (plain, _) = strip_ansi(&pretty);
    let blocks: Vec<&str> = items_all.iter().map(|i| i.block.as_str()).collect();
    if let Err(e) = locate_items(&plain, &blocks) {
        vfail!("list_all: {e}{}", show(&r.src, &pretty));
    }
    obs.evals(2);
    let n_pending = exp_all.iter().filter(|g| !g.ready).count();
    let n_ready = exp_all.len() - n_pending;
    if n_pending >= 2 && n_ready >= 1 {
        // classes
        for (i, e) in r.elems.iter().enumerate() {
            if tr.decisions[i] == Decision::Pending {
                if let Some(p) = e.parent {
                    if tr.decisions[p] == Decision::Ready && matches!(tr.extents[p], Extent::Parts(..)) {
                        obs.class("pending-inside-ready-unwrapped-body");
                    }
                    if tr.decisions[p] == Decision::Ready && matches!(tr.extents[p], Extent::Whole(_)) {
                        obs.class("pending-inside-ready-region(squashed)");
                    }
                    if tr.decisions[p] == Decision::Pending && matches!(tr.extents[p], Extent::Whole(_)) {
                        obs.class("pending-inside-pending-region(squashed)");
                    }
                }
            }
            if tr.decisions[i] == Decision::Ready {
                if let Some(p) = e.parent {
                    if tr.decisions[p] == Decision::Pending {
                        obs.class("ready-inside-pending-parent");
                    }
                }
            }
        }
        obs.nontrivial(c, || json!({"src": r.src, "list_all": got}));
    }
    Verdict::Pass
}

// ---- C16 ----------------------------------------------------------------------------------------------------------

pub fn oracle_c16(c: &AstCase, obs: &mut Obs) -> Verdict {
    let Some(l) = prepare(c, obs, Which::C16) else { return Verdict::Pass };
    let (r, tr, cfg) = (&l.r, &l.tr, &l.cfg);
    let mut nt = false;
    for all in [false, true] {
        let exp = regions(r, tr, all);
        let name = if all { "list_all" } else { "list" };
        let js = match call_list(&r.src, cfg, all, true) {
            Ok(j) => j,
            Err(p) => vfail!("{name}(JSON) failed: {p}\n  src = {:?}", r.src),
        };
        let items = match parse_items(&js) {
            Ok(i) => i,
            Err(e) => vfail!("{name}: {e}{}", show(&r.src, &js)),
        };
        let pretty = match call_list(&r.src, cfg, all, false) {
            Ok(p) => p,
            Err(p) => vfail!("{name}(pretty) failed: {p}\n  src = {:?}", r.src),
        };
        // pretty form with colour codes stripped == JSON code block, item by item, in order, nothing else item-like
        let (plain, mask) = strip_ansi(&pretty);
        let blocks: Vec<&str> = items.iter().map(|i| i.block.as_str()).collect();
        let at = match locate_items(&plain, &blocks) {
            Ok(a) => a,
            Err(e) => vfail!("{name}: {e}{}", show(&r.src, &pretty)),
        };
        for (k, it) in items.iter().enumerate() {
            // something of every item is highlighted in the pretty form (which colour is not specified)
            if highlighted(&plain, &mask, at[k], it.block.len()).is_empty() {
                vfail!("{name}: item {} has no highlighted text in the pretty form{}", k + 1, show(&r.src, &pretty));
            }
        }
        if items.len() != exp.len() || items.iter().zip(exp.iter()).any(|(i, g)| i.ready != g.ready) {
            // which regions are listed is C15/C17's business; without agreed regions the columns cannot be re-derived
            obs.excluded("set-of-regions-differs-from-expectation(C15/C17)");
            continue;
        }
        for (k, (g, it)) in exp.iter().zip(items.iter()).enumerate() {
            let (first, last) = (line_of(&r.src, g.start), line_of(&r.src, g.end - 1));
            if (it.first, it.last) != (first as u64, last as u64) {
                vfail!("{name}: item {} line_range is {:?}, expected {:?}", k + 1, (it.first, it.last), (first, last));
            }
            if let Err(e) = check_rendering(&r.src, g.start, g.end, &it.block) {
                vfail!("{name}: item {}: {e}\n  rendered as\n{}\n  src = {:?}", k + 1, it.block, truncate(&r.src, 1200));
            }
            let ls = r.src[..g.start].rfind('\n').map(|p| p + 1).unwrap_or(0);
            if g.start > ls || r.src[g.start..g.end].contains('\t') || first != last {
                nt = true;
                if r.src[ls..g.start].contains('\t') {
                    obs.class("tab-left-of-start-marker");
                }
                if first != last {
                    obs.class("multi-line-region");
                }
            }
            if !it.ready {
                obs.class("pending-item");
            }
        }
    }
    obs.evals(3);
    if nt {
        if r.src.starts_with('\n') {
            obs.class("first-byte-is-line-break");
        }
        obs.nontrivial(c, || json!({"src": r.src, "list_all": call_list(&r.src, cfg, true, true).unwrap_or_default()}));
    }
    Verdict::Pass
}

// ---- checks ---------------------------------------------------------------------------------------------------------

pub fn check(ctx: &mut Ctx, id: &'static str) {
    let which = match id {
        "C15" => Which::C15,
        "C16" => Which::C16,
        _ => Which::C17,
    };
    ctx.assume("tags do not sit on unwrap wrapper lines; wrapper lines are non-empty code lines; text left of a marker is ASCII; no CR characters");
    ctx.replay_corpus(|sub, case, obs| replay(id, sub, case, obs));
    ctx.require_class("ready-element-with-multi-line-opening-tag");
    match which {
        Which::C15 => {
            ctx.rule = "cases = AST block + inline documents (6 delimiter pairs, all readiness assignments), first byte not a line break. Oracle: list JSON == by-construction regions in source order (count, status Ready, first/last line); highlighted text of the pretty form (between ESC[31m and ESC[0m) == region text with tabs expanded; the source minus the highlighted texts equals clean's output modulo whitespace (ties the listing to the deletion without the model); two calls return identical strings. Non-trivial = at least one region.".into();
            for c in ["two-regions-start-on-one-line", "region-not-at-column-0", "ready-child-inside-unwrapped-body", "region-ends-at-eof"] {
                ctx.require_class(c);
            }
            ctx.random("ast-documents", 400, 250_000, 15_000_000, |t| gen(t, which), oracle_c15);
            ctx.reshrink::<AstCase, _, _>("ast-documents", oracle_c15, crate::props::clean::shrink_ast);
            // "a pure function of source and configuration": the process environment (colour conventions, terminal, locale,
            // zone) has no influence. One unit, so that no other case runs while the variables are set.
            ctx.exhaustive("environment", "list / list_all, pretty and JSON, called again with NO_COLOR, CLICOLOR, CLICOLOR_FORCE, TERM, LANG, LC_ALL, TZ, COLUMNS set: identical strings", vec![0u8], |_, obs| {
                let src = "a\n  <rm name='a'>\n\tx\n  </rm> t\nb <tl to=\"2999-01-01 00:00:00\">p</tl>\n<rm name='a' unwrap-block>\nif (x) {\n  y\n}\n</rm>\n";
                let cfg = Cfg::simple("<", ">");
                let call_all = || -> Vec<Result<String, String>> { vec![call_list(src, &cfg, false, false), call_list(src, &cfg, false, true), call_list(src, &cfg, true, false), call_list(src, &cfg, true, true)] };
                let before = call_all();
                let vars = [("NO_COLOR", "1"), ("CLICOLOR", "0"), ("CLICOLOR_FORCE", "1"), ("TERM", "dumb"), ("LANG", "ja_JP.UTF-8"), ("LC_ALL", "C"), ("TZ", "America/Los_Angeles"), ("COLUMNS", "20")];
                let saved: Vec<(&str, Option<std::ffi::OsString>)> = vars.iter().map(|(k, _)| (*k, std::env::var_os(k))).collect();
                let mut failure = None;
                for (k, v) in vars {
                    std::env::set_var(k, v);
                    obs.eval();
                    let after = call_all();
                    if after != before {
                        failure = Some(fail_case("environment", &json!({"variable": k, "value": v}), format!("with {k}={v} in the process environment a list call returns a different string than before (listing must be a function of source and configuration only)\n  before = {:?}\n  after  = {:?}", before.iter().map(|r| r.as_ref().map(|s| truncate(s, 200))).collect::<Vec<_>>(), after.iter().map(|r| r.as_ref().map(|s| truncate(s, 200))).collect::<Vec<_>>())));
                        break;
                    }
                }
                for (k, v) in saved {
                    match v {
                        Some(v) => std::env::set_var(k, v),
                        None => std::env::remove_var(k),
                    }
                }
                if failure.is_none() {
                    obs.nontrivial_counted(|| json!({"variables": vars.iter().map(|(k, _)| *k).collect::<Vec<_>>()}));
                }
                failure
            });
            // long files: line numbers of regions far down, a region on the last line with / without a final line break
            let units: Vec<u64> = vec![7, 125, 253, 1_021, 65_533, 999_997];
            ctx.exhaustive("large-documents", "6 files x 2 (with / without final line break) that begin with 7 .. 999 997 line breaks: count, line ranges and code blocks of the listed regions", units, |n, obs| {
                obs.eval();
                match large_line_numbers(*n) {
                    Ok(()) => {
                        obs.nontrivial_counted(|| json!({"leading_line_breaks": n}));
                        None
                    }
                    Err(m) => Some(fail_case("large-line-numbers", &json!({"leading_line_breaks": n}), m)),
                }
            });
        }
        Which::C16 => {
            ctx.rule = "cases = documents of the C15 space plus files whose first byte is a line break; list and list_all, pretty and JSON. Oracle: JSON parses into objects with exactly the keys line_range / annotated_code_block / current_status; every item's code block satisfies the rendering rule re-derived from the source (a `_start` line, exactly the source lines first..=last each prefixed by its 1-based number in a column of one fixed width that is read off the output, tabs as four spaces, an `‾end` line; marker columns = number-column width + width of the text left of the first / last removed character with tab = 4); the pretty form with SGR colour codes stripped contains the JSON blocks item by item, in order, and nothing else item-like; every item has highlighted text. Header wording, colours and the width of the number column are not asserted (the property does not fix them). Non-trivial = a region not starting at column 0, containing a tab, or spanning >= 2 lines.".into();
            for c in ["first-byte-is-line-break", "tab-left-of-start-marker", "multi-line-region", "pending-item"] {
                ctx.require_class(c);
            }
            ctx.random("ast-documents", 400, 200_000, 15_000_000, |t| gen(t, which), oracle_c16);
            ctx.reshrink::<AstCase, _, _>("ast-documents", oracle_c16, crate::props::clean::shrink_ast);
            // items far down in long files: the number column must stay fixed-width when the line numbers of one item
            // differ in their number of digits (9 -> 10, 99 -> 100, ..., 9 999 999 -> 10 000 000)
            let units: Vec<u64> = vec![5, 6, 7, 96, 97, 125, 253, 997, 9_996, 9_997, 65_533, 99_997, 999_994, 999_996, 999_997, 9_999_994, 9_999_995, 9_999_996, 9_999_997];
            ctx.exhaustive("large-line-numbers", "19 files x 2 (with / without final line break) that begin with 10^k - 3 .. 10^k - 6 (k = 1..7), 125, 253 or 65 533 line breaks, so that listed items cross, end exactly at, or begin exactly at a power of ten; a region on the last line; list and list_all, JSON and pretty", units, |n, obs| {
                obs.eval();
                match large_line_numbers(*n) {
                    Ok(()) => {
                        obs.nontrivial_counted(|| json!({"leading_line_breaks": n}));
                        None
                    }
                    Err(m) => Some(fail_case("large-line-numbers", &json!({"leading_line_breaks": n}), m)),
                }
            });
        }
        Which::C17 => {
            ctx.rule = "cases = documents of the C15 space with pending / skip / unregistered / malformed-condition / un-unwrappable elements around and inside ready ones. Oracle: list_all JSON == by-construction sequence (first line, last line, status) in source order: every Ready region once, every region of a registered-but-not-ready element that is not inside a Ready region or a larger Pending region; Ready subsequence identical to list; pretty statuses agree. Non-trivial = >= 2 pending regions and >= 1 ready region.".into();
            for c in ["pending-inside-ready-unwrapped-body", "ready-inside-pending-parent", "pending-inside-ready-region(squashed)", "pending-inside-pending-region(squashed)"] {
                ctx.require_class(c);
            }
            ctx.random("ast-documents", 400, 250_000, 15_000_000, |t| gen(t, which), oracle_c17);
            ctx.reshrink::<AstCase, _, _>("ast-documents", oracle_c17, crate::props::clean::shrink_ast);
        }
    }
}

/// A file that begins with `n` line breaks, followed by a multi-line ready element (indented, with a tab inside) and a
/// pending inline one: every item must satisfy the rendering rule of C16.
fn large_line_numbers(n: u64) -> Result<(), String> {
    large_document(n, true)?;
    large_document(n, false)
}

fn large_document(n: u64, final_newline: bool) -> Result<(), String> {
    let head = "\n".repeat(n as usize);
    // a multi-line ready element, a pending inline one, and a ready inline one on the last line (with or without a final
    // line break: the last line of a long file)
    let mut body = "  <rm name='a'>\n\tx\n  y\n  z</rm> tail\nq <rm name='zz'>p</rm>\nlast <rm name='a'>r</rm>".to_string();
    if final_newline {
        body.push('\n');
    }
    let src = format!("{head}{body}");
    let cfg = Cfg::simple("<", ">");
    let s1 = head.len() + 2;
    let e1 = head.len() + body.find("</rm>").unwrap() + 5;
    let s2 = head.len() + body.find("<rm name='zz'>").unwrap();
    let e2 = s2 + "<rm name='zz'>p</rm>".len();
    let s3 = head.len() + body.rfind("<rm name='a'>").unwrap();
    let e3 = head.len() + body.rfind("</rm>").unwrap() + 5;
    let first = n + 1;
    for all in [false, true] {
        let js = call_list(&src, &cfg, all, true).map_err(|e| format!("list failed on a file that begins with {n} line breaks: {e}"))?;
        let items = parse_items(&js)?;
        let want: Vec<(u64, u64, bool, usize, usize)> = if all { vec![(first, first + 3, true, s1, e1), (first + 4, first + 4, false, s2, e2), (first + 5, first + 5, true, s3, e3)] } else { vec![(first, first + 3, true, s1, e1), (first + 5, first + 5, true, s3, e3)] };
        if items.len() != want.len() {
            return Err(format!("{} items listed for a file that begins with {n} line breaks (final line break: {final_newline}), expected {}", items.len(), want.len()));
        }
        let pretty = call_list(&src, &cfg, all, false).map_err(|e| format!("pretty list failed: {e}"))?;
        let plain = strip_ansi(&pretty).0;
        let mut pos = 0;
        for (it, (f, l, ready, s, e)) in items.iter().zip(want.iter()) {
            if (it.first, it.last, it.ready) != (*f, *l, *ready) {
                return Err(format!("item is (lines {}..={}, ready {}), expected ({f}..={l}, {ready}) in a file that begins with {n} line breaks (final line break: {final_newline})", it.first, it.last, it.ready));
            }
            check_rendering(&src, *s, *e, &it.block).map_err(|m| format!("file that begins with {n} line breaks (final line break: {final_newline}), item at lines {f}..={l}: {m}\n  block = {:?}", it.block))?;
            match plain[pos..].find(it.block.as_str()) {
                Some(p) => pos += p + it.block.len(),
                None => return Err(format!("the pretty form (colour codes stripped) does not contain the JSON code block of the item at lines {f}..={l}")),
            }
        }
    }
    Ok(())
}

pub fn replay(id: &str, sub: &str, case: &Value, obs: &mut Obs) -> Result<Verdict, String> {
    if sub == "environment" {
        let k = case["variable"].as_str().unwrap_or("NO_COLOR").to_string();
        let v = case["value"].as_str().unwrap_or("1").to_string();
        let src = "a\n  <rm name='a'>\n\tx\n  </rm> t\n";
        let cfg = Cfg::simple("<", ">");
        let before = call_list(src, &cfg, false, false);
        let saved = std::env::var_os(&k);
        std::env::set_var(&k, &v);
        let after = call_list(src, &cfg, false, false);
        match saved {
            Some(s) => std::env::set_var(&k, s),
            None => std::env::remove_var(&k),
        }
        obs.eval();
        return Ok(if before != after { Verdict::Fail(format!("with {k}={v} the pretty list differs")) } else { Verdict::Pass });
    }
    if sub == "large-line-numbers" {
        let n = case["leading_line_breaks"].as_u64().ok_or("no leading_line_breaks")?;
        obs.eval();
        return Ok(match large_line_numbers(n) {
            Ok(()) => Verdict::Pass,
            Err(m) => Verdict::Fail(m),
        });
    }
    replay_case::<AstCase, _>(case, obs, |c, obs| {
        obs.eval();
        match id {
            "C15" => oracle_c15(c, obs),
            "C16" => oracle_c16(c, obs),
            _ => oracle_c17(c, obs),
        }
    })
}
