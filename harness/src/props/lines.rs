//! C11 (unwrap-block removes exactly four lines), C12 (uniform safe dedent), C13 (block-style removal
//! keeps lines intact, no blank residue) on block-style AST documents with per-line ground truth.

use crate::astgen::{self, ACfg, Cond, Doc, Elem, Extent, Node, Opts, Spell};
use crate::engine::*;
use crate::linetruth::{kf1_signature, line_truth, residue_class, Fate, LineTruth};
use crate::props::clean::AstCase;
use crate::refmodel::{self, Decision};
use crate::util::*;
use crate::vfail;
use serde_json::{json, Value};

#[derive(Clone, Copy, PartialEq, Eq, Debug)]
pub enum Which {
    C11,
    C12,
    C13,
}

fn show(src: &str, out: &str) -> String {
    format!("\n  src = {:?}\n  out = {:?}", truncate(src, 1500), truncate(out, 1500))
}

pub fn opts(which: Which) -> Opts {
    let mut o = Opts::base();
    o.delims = vec![("<", ">"), ("<!-- <", "> -->"), ("/* <", "> */"), ("「", "」"), ("[[", "]]"), ("// --", "-- //")];
    o.inline = false;
    o.tags_on_wrappers = false;
    o.unwrap_tags_shared = false;
    o.close_attr_pct = 10;
    o.bom_pct = 4;
    // opening tags that span several lines (one attribute per line, the README's layout): all their lines are tag lines
    o.multiline_tag_pct = 10;
    match which {
        Which::C11 => {
            o.unwrap_pct = 60;
            o.nested_unwrap = false;
            o.blank_wrappers = true;
            o.single_line_unwrap = true;
            o.first_line_empty_pct = 5;
        }
        Which::C12 => {
            o.unwrap_pct = 70;
            o.nested_unwrap = true;
            o.blank_wrappers = false;
            o.first_line_empty_pct = 12;
            o.max_depth = 3;
            o.ragged_pct = 55;
            o.blank_lines = true;
            o.multiline_tag_pct = 15;
        }
        Which::C13 => {
            o.unwrap_pct = 0;
            o.first_line_empty_pct = 5;
            o.max_top = 6;
        }
    }
    o
}

pub fn gen(t: &mut Tape, which: Which) -> AstCase {
    let o = opts(which);
    let (doc, spell) = astgen::gen_doc(t, &o);
    let mut cfg = astgen::gen_acfg(t);
    if t.chance(60) {
        // make most elements ready
        cfg.now_idx = 3 + t.below(2);
        cfg.targets = 7;
    }
    AstCase { doc, spell, cfg }
}

struct Prepared {
    r: astgen::Rendered,
    tr: astgen::Truth,
    lt: LineTruth,
    out: String,
    /// known finding KF1 applies: the indentation of the first surviving non-blank line after the
    /// removed first-line tag is not asserted (index into the list of surviving non-blank lines)
    kf1_line: Option<usize>,
}

fn prepare(c: &AstCase, obs: &mut Obs, use_kf1: bool, which: Which) -> Result<Option<Prepared>, Verdict> {
    let r = astgen::render(&c.doc, &c.spell);
    if let Err(why) = astgen::in_domain(&r, &opts(which).domain()) {
        obs.excluded(why);
        return Ok(None);
    }
    let cfg = c.cfg.to_cfg(&c.spell);
    let tr = astgen::truth(&r, &c.cfg);
    if tr.undefined {
        obs.excluded("ready-unwrap-with-shared-tag-lines");
        return Ok(None);
    }
    if refmodel::ref_tags(&r.src, &c.spell.ds, &c.spell.de).len() != 2 * r.elems.len() {
        obs.excluded("rendering-does-not-tokenize-as-intended");
        return Ok(None);
    }
    if r.elems.iter().enumerate().any(|(i, e)| e.open_first_line != e.open_line && tr.decisions[i] == Decision::Ready) {
        obs.class("ready-element-with-multi-line-opening-tag");
    }
    let lt = line_truth(&r, &tr);
    let mut kf1_line = None;
    if use_kf1 && kf1_signature(&r, &tr) {
        // the residue of the tag's indentation ends up in front of the first surviving non-blank line
        // after the removed run that starts on line 1
        let mut l = 0;
        while l < lt.fate.len() && lt.fate[l] != Fate::Kept {
            l += 1;
        }
        let idx = lt.text.iter().zip(lt.fate.iter()).take(l).filter(|(t, f)| **f == Fate::Kept && !is_blank(t)).count();
        kf1_line = Some(idx);
        obs.excluded("KF1:first-line-indented-ready-tag-adjacent-removal(indentation of one line not asserted)");
    }
    let out = match call_clean(&r.src, &cfg) {
        Ok(o) => o,
        Err(p) => return Err(Verdict::Fail(format!("clean panicked: {p}\n  src = {:?}", r.src))),
    };
    Ok(Some(Prepared { r, tr, lt, out, kf1_line }))
}

// ---- C11 -------------------------------------------------------------------------------------------------------

pub fn oracle_c11(c: &AstCase, obs: &mut Obs, kf1: bool, counted: bool) -> Verdict {
    oracle_c11_kf(c, obs, kf1, counted, true, true)
}

pub fn oracle_c11_kf(c: &AstCase, obs: &mut Obs, kf1: bool, counted: bool, kf_adjacent: bool, kf_blank: bool) -> Verdict {
    let p = match prepare(c, obs, kf1, Which::C11) {
        Ok(Some(p)) => p,
        Ok(None) => return Verdict::Pass,
        Err(v) => return v,
    };
    let (r, tr, lt, out) = (&p.r, &p.tr, &p.lt, &p.out);
    // (1) non-blank lines modulo leading whitespace
    let exp: Vec<&str> = lt.text.iter().zip(lt.fate.iter()).filter(|(t, f)| **f == Fate::Kept && !is_blank(t)).map(|(t, _)| t.trim_start_matches([' ', '\t'])).collect();
    let got: Vec<&str> = out.split('\n').filter(|l| !is_blank(l)).map(|l| l.trim_start_matches([' ', '\t'])).collect();
    if exp != got {
        let k = exp.iter().zip(got.iter()).take_while(|(a, b)| a == b).count();
        vfail!("surviving lines (ignoring indentation) differ from the input minus the removed tag/wrapper lines: first difference at surviving line {k}: got {:?}, expected {:?}{}", got.get(k), exp.get(k), show(&r.src, out));
    }
    // (2) nothing removable => untouched
    if tr.n_ready == 0 && out != &r.src {
        vfail!("no element can be removed or unwrapped but the text changed{}", show(&r.src, out));
    }
    // (3) line for line, blank lines included, wherever no known residue class applies
    match residue_class(lt) {
        None => {
            let mut explines: Vec<(bool, &str)> = lt.text.iter().zip(lt.fate.iter()).filter(|(_, f)| **f == Fate::Kept).map(|(t, _)| (is_blank(t), t.as_str())).collect();
            // "a\n" is both [a] with a final line break and [a, ""] without one: empty pieces at the very end are not compared
            let mut gotlines: Vec<&str> = out.split('\n').collect();
            while gotlines.last() == Some(&"") {
                gotlines.pop();
            }
            while explines.last().map(|(_, t)| t.is_empty()).unwrap_or(false) {
                explines.pop();
            }
            let same = explines.len() == gotlines.len() && explines.iter().zip(gotlines.iter()).all(|((b, e), g)| if *b { is_blank(g) } else { e.trim_start_matches([' ', '\t']) == g.trim_start_matches([' ', '\t']) });
            if !same {
                vfail!("exactly the tag and wrapper lines (and removed children) must disappear and no other line may be added or lost: got {} lines, expected {}{}", gotlines.len(), explines.len(), show(&r.src, out));
            }
            obs.class("strict-line-for-line");
        }
        Some("nothing-removed") => {}
        Some(why) => {
            let known = match why {
                "adjacent-removed-parts" => kf_adjacent,
                "blank-lines-on-both-sides" => kf_blank,
                _ => true,
            };
            if known {
                obs.excluded(&format!("blank-lines-not-asserted:{why}"));
            } else {
                // the finding is not (or no longer) listed: assert the letter of the property
                let mut exp: Vec<&str> = lt.text.iter().zip(lt.fate.iter()).filter(|(_, f)| **f == Fate::Kept).map(|(t, _)| t.as_str()).collect();
                while exp.last().map(|t| t.is_empty()).unwrap_or(false) {
                    exp.pop();
                }
                let mut got: Vec<&str> = out.split('\n').collect();
                while got.last() == Some(&"") {
                    got.pop();
                }
                let (exp_n, got_n) = (exp.len(), got.len());
                if exp_n != got_n {
                    vfail!("{why}: the output has {got_n} lines, the input minus the removed lines has {exp_n}{}", show(&r.src, out));
                }
            }
        }
    }
    // non-trivial: an unwrap element with condition holding and 0..3 lines between, or a nested child in an unwrapped body
    let mut nt = false;
    for (i, e) in r.elems.iter().enumerate() {
        if e.unwrap && tr.decisions[i] == Decision::Ready && lt.fate[e.open_line] != (Fate::Removed { seam: usize::MAX }) {
            let between = e.close_line.saturating_sub(e.open_line + 1);
            if e.inline {
                obs.class("single-line-unwrap");
                nt = true;
            } else if between <= 3 {
                obs.class(&format!("lines-between={between}"));
                nt = true;
            }
            if matches!(tr.extents[i], Extent::Parts(..)) && r.elems.iter().any(|k| k.parent == Some(i)) {
                obs.class("child-element-in-unwrapped-body");
                nt = true;
            }
        }
    }
    if nt {
        let mk = || json!({"src": r.src, "out": out, "delims": [c.spell.ds, c.spell.de]});
        if counted {
            obs.nontrivial_counted(mk);
        } else {
            obs.nontrivial(c, mk);
        }
    }
    Verdict::Pass
}

// ---- C12 -------------------------------------------------------------------------------------------------------

pub fn oracle_c12(c: &AstCase, obs: &mut Obs, kf1: bool, counted: bool) -> Verdict {
    let p = match prepare(c, obs, kf1, Which::C12) {
        Ok(Some(p)) => p,
        Ok(None) => return Verdict::Pass,
        Err(v) => return v,
    };
    let (r, tr, lt, out) = (&p.r, &p.tr, &p.lt, &p.out);
    if lt.ambiguous {
        obs.excluded("ambiguous-nested-dedent");
        return Verdict::Pass;
    }
    if lt.ws_first_inner {
        obs.excluded("first-inner-line-whitespace-only");
        return Verdict::Pass;
    }
    let exp: Vec<&str> = lt.expected.iter().filter_map(|e| e.as_deref()).filter(|l| !is_blank(l)).collect();
    let got: Vec<&str> = out.split('\n').filter(|l| !is_blank(l)).collect();
    let same = exp.len() == got.len() && exp.iter().zip(got.iter()).enumerate().all(|(k, (a, b))| if Some(k) == p.kf1_line { a.trim_start_matches([' ', '\t']) == b.trim_start_matches([' ', '\t']) } else { a == b });
    if !same {
        let k = exp.iter().zip(got.iter()).take_while(|(a, b)| a == b).count();
        vfail!("non-blank output line {k} is {:?}, expected {:?} (inner lines of an unwrapped block move left by min(first inner indent - tag indent, own indent - tag indent), never negative){}", got.get(k), exp.get(k), show(&r.src, out));
    }
    // classification
    let mut nt = false;
    let mut depth2 = false;
    for (l, ds) in lt.dedents.iter().enumerate() {
        if lt.fate[l] != Fate::Kept || is_blank(&lt.text[l]) {
            continue;
        }
        if ds.len() >= 2 {
            depth2 = true;
        }
        for (t, d) in ds {
            let li = lead(&lt.text[l]);
            if *d > 0 && (li < t + d || li <= *t) {
                nt = true;
            }
        }
    }
    if nt {
        if depth2 {
            obs.class("unwrap-nesting-depth>=2");
        }
        if lt.unwrapped.iter().any(|&i| r.elems[i].open_first_line == 0) {
            obs.class("block-on-line-1");
        }
        if lt.unwrapped.iter().any(|&i| r.elems[i].open_first_line == 1 && r.src.starts_with('\n')) {
            obs.class("block-after-empty-first-line");
        }
        if c.doc.unit == "\t" {
            obs.class("tab-unit");
        }
        let mk = || json!({"src": r.src, "out": out});
        if counted {
            obs.nontrivial_counted(mk);
        } else {
            obs.nontrivial(c, mk);
        }
    }
    let _ = tr;
    Verdict::Pass
}

// ---- C13 -------------------------------------------------------------------------------------------------------

pub fn oracle_c13(c: &AstCase, obs: &mut Obs, kf1: bool, counted: bool) -> Verdict {
    let p = match prepare(c, obs, kf1, Which::C13) {
        Ok(Some(p)) => p,
        Ok(None) => return Verdict::Pass,
        Err(v) => return v,
    };
    let (r, tr, lt, out) = (&p.r, &p.tr, &p.lt, &p.out);
    if tr.n_unwrapped > 0 {
        return Verdict::Broken("C13 generator produced an unwrapped element".into());
    }
    // (1) non-blank lines byte for byte
    let exp: Vec<&str> = lt.text.iter().zip(lt.fate.iter()).filter(|(t, f)| **f == Fate::Kept && !is_blank(t)).map(|(t, _)| t.as_str()).collect();
    let outlines: Vec<&str> = out.split('\n').collect();
    let got: Vec<&str> = outlines.iter().copied().filter(|l| !is_blank(l)).collect();
    let same = exp.len() == got.len() && exp.iter().zip(got.iter()).enumerate().all(|(k, (a, b))| if Some(k) == p.kf1_line { a.trim_start_matches([' ', '\t']) == b.trim_start_matches([' ', '\t']) } else { a == b });
    if !same {
        let k = exp.iter().zip(got.iter()).take_while(|(a, b)| a == b).count();
        vfail!("non-blank output lines differ from the surviving non-blank input lines: at index {k} got {:?}, expected {:?}{}", got.get(k), exp.get(k), show(&r.src, out));
    }
    // (2) blank-line formula for single blocks between surviving non-blank lines
    let n = lt.fate.len();
    let kept_blank = |i: usize| lt.fate[i] == Fate::Kept && is_blank(&lt.text[i]);
    let kept_code = |i: usize| lt.fate[i] == Fate::Kept && !is_blank(&lt.text[i]);
    // index among surviving non-blank lines
    let mut code_idx = vec![0usize; n + 1];
    for i in 0..n {
        code_idx[i + 1] = code_idx[i] + if kept_code(i) { 1 } else { 0 };
    }
    // gaps[k] = blank lines between surviving non-blank line k and k+1 in the output
    let mut gaps: Vec<usize> = vec![];
    {
        let mut cnt = 0;
        let mut seen = false;
        for l in &outlines {
            if is_blank(l) {
                cnt += 1;
            } else {
                if seen {
                    gaps.push(cnt);
                }
                seen = true;
                cnt = 0;
            }
        }
    }
    let mut i = 0;
    let mut formula = 0;
    let mut nt = false;
    while i < n {
        if let Fate::Removed { seam } = lt.fate[i] {
            let mut j = i;
            let mut single = true;
            while j < n {
                match lt.fate[j] {
                    Fate::Removed { seam: s2 } => {
                        if s2 != seam {
                            single = false;
                        }
                        j += 1;
                    }
                    _ => break,
                }
            }
            let mut pb = i;
            let mut b = 0;
            while pb > 0 && kept_blank(pb - 1) {
                b += 1;
                pb -= 1;
            }
            let mut qa = j;
            let mut a = 0;
            while qa < n && kept_blank(qa) {
                a += 1;
                qa += 1;
            }
            let before_ok = pb > 0 && kept_code(pb - 1);
            let after_ok = qa < n && kept_code(qa);
            if a + b > 0 {
                nt = true;
            }
            if before_ok && after_ok && single {
                let k = code_idx[qa]; // index of the following non-blank line
                let expect = a + b - if a > 0 && b > 0 { 1 } else { 0 };
                formula += 1;
                if gaps.get(k - 1).copied() != Some(expect) {
                    vfail!("a removed block with {b} blank line(s) before and {a} after it leaves {:?} blank line(s) between its neighbours, expected {expect}{}", gaps.get(k - 1), show(&r.src, out));
                }
                obs.class(&format!("formula b={} a={}", b.min(3), a.min(3)));
            }
            i = j;
        } else {
            i += 1;
        }
    }
    if tr.n_ready == 0 && out != &r.src {
        vfail!("nothing is ready but the text changed{}", show(&r.src, out));
    }
    for (i2, e) in r.elems.iter().enumerate() {
        if tr.decisions[i2] == Decision::Ready {
            if let Some(pi) = e.parent {
                if tr.decisions[pi] == Decision::Pending && lt.fate[e.open_line] == (Fate::Removed { seam: 4 * i2 }) {
                    obs.class("removed-block-in-pending-parent");
                    nt = true;
                }
            }
        }
    }
    if formula > 0 {
        obs.class("formula-checked");
    }
    if nt {
        let mk = || json!({"src": r.src, "out": out});
        if counted {
            obs.nontrivial_counted(mk);
        } else {
            obs.nontrivial(c, mk);
        }
    }
    Verdict::Pass
}

// ---- hand-built documents for the exhaustive grids ---------------------------------------------------------------

fn el(id: usize, unwrap: bool, ready: bool) -> Elem {
    Elem { id, cond: if ready { Cond::Rm(0) } else { Cond::Rm(1) }, skip: false, unwrap, style: 0 }
}

fn block(indent: &str, e: Elem, kids: Vec<Node>) -> Node {
    Node::Block { indent: indent.into(), open_lead: String::new(), elem: e, open_trail: String::new(), kids, close_indent: indent.into(), close_lead: String::new(), close_trail: String::new() }
}

fn case_of(nodes: Vec<Node>, final_newline: bool, unit: &str) -> AstCase {
    AstCase { doc: Doc { nodes, final_newline, unit: unit.into() }, spell: Spell::new("<", ">"), cfg: ACfg { now_idx: 0, targets: 1 } }
}

fn blanks(style: usize, n: usize) -> Vec<Node> {
    (0..n)
        .map(|i| {
            Node::Line(
                match style {
                    0 => "",
                    1 => " ",
                    2 => "\t",
                    _ => {
                        if i % 2 == 0 {
                            ""
                        } else {
                            "  \t"
                        }
                    }
                }
                .to_string(),
            )
        })
        .collect()
}

/// C13 grid
fn c13_grid(unit_idx: usize) -> Vec<AstCase> {
    let unit = ["  ", "\t", "    "][unit_idx];
    let mut v = vec![];
    for b in 0..=4 {
        for a in 0..=4 {
            for bs in 0..4 {
                for as_ in 0..4 {
                    if (b == 0 && bs > 0) || (a == 0 && as_ > 0) {
                        continue;
                    }
                    for ind in 0..3 {
                        for content in 0..3 {
                            for pending_parent in [false, true] {
                                for pos in 0..3 {
                                    // pos 0: block first, 1: middle, 2: last
                                    for fnl in [true, false] {
                                        let indent = unit.repeat(ind);
                                        let mut id = 0;
                                        let mut next = || {
                                            id += 1;
                                            id
                                        };
                                        let kids: Vec<Node> = (0..content).map(|k| Node::Line(format!("{indent}{unit}body{k}"))).collect();
                                        let blk = block(&indent, el(next(), false, true), kids);
                                        let mut inner: Vec<Node> = vec![];
                                        if pos != 0 {
                                            inner.push(Node::Line(format!("{indent}before();")));
                                        }
                                        inner.extend(blanks(bs, b));
                                        inner.push(blk);
                                        inner.extend(blanks(as_, a));
                                        if pos != 2 {
                                            inner.push(Node::Line(format!("{indent}after();")));
                                        }
                                        let nodes = if pending_parent { vec![Node::Line("top".into()), block("", el(next(), false, false), inner), Node::Line("bottom".into())] } else { inner };
                                        v.push(case_of(nodes, fnl, unit));
                                    }
                                }
                            }
                        }
                    }
                }
            }
        }
    }
    v
}

/// C11 grid
fn c11_grid(between: usize) -> Vec<AstCase> {
    let mut v = vec![];
    let unit = "  ";
    for w1 in 0..3 {
        for w2 in 0..3 {
            for pos in 0..3 {
                for ind in 0..3 {
                    for extra in 1..3 {
                        for fnl in [true, false] {
                            for child in [false, true] {
                                if child && between < 4 {
                                    continue;
                                }
                                let indent = unit.repeat(ind);
                                let wl = |k: usize, open: bool| match k {
                                    0 => format!("{indent}{}", if open { "if (x) {" } else { "}" }),
                                    1 => String::new(),
                                    _ => " \t".to_string(),
                                };
                                let mut kids = vec![];
                                if between >= 1 {
                                    kids.push(Node::Line(wl(w1, true)));
                                }
                                let n_inner = between.saturating_sub(2);
                                if child {
                                    // a ready default child of two lines + the remaining inner lines
                                    kids.push(Node::Line(format!("{indent}{}日本語 0", unit.repeat(extra))));
                                    kids.push(block(&format!("{indent}{unit}"), el(900, false, true), vec![]));
                                    for k in 3..n_inner {
                                        kids.push(Node::Line(format!("{indent}{}inner{k}", unit.repeat(extra))));
                                    }
                                } else {
                                    for k in 0..n_inner {
                                        kids.push(Node::Line(format!("{indent}{}inner{k}", unit.repeat(extra))));
                                    }
                                }
                                if between >= 2 {
                                    kids.push(Node::Line(wl(w2, false)));
                                }
                                let blk = block(&indent, el(1, true, true), kids);
                                let mut nodes = vec![];
                                if pos != 0 {
                                    nodes.push(Node::Line("before();".into()));
                                }
                                nodes.push(blk);
                                if pos != 2 {
                                    nodes.push(Node::Line("after();".into()));
                                }
                                v.push(case_of(nodes, fnl, unit));
                            }
                        }
                    }
                }
            }
        }
    }
    v
}

/// C12 grid: tag indent t, first inner f, other inner l (in units)
fn c12_grid(unit_idx: usize) -> Vec<AstCase> {
    let unit = ["  ", "\t", "    "][unit_idx];
    let mut v = vec![];
    for t in 0..3 {
        for f in 0..4 {
            for l in 0..5 {
                for l2 in [0usize, 2, 4] {
                    for pos in 0..3 {
                        // 0: block on line 1; 1: after an empty first line; 2: after a code line
                        let ti = unit.repeat(t);
                        let kids = vec![
                            Node::Line(format!("{ti}if (x) {{")),
                            Node::Line(format!("{}first();", unit.repeat(f))),
                            Node::Line(format!("{}日本語();", unit.repeat(l))),
                            Node::Line(format!("{}third();", unit.repeat(l2))),
                            Node::Line(format!("{ti}}}")),
                        ];
                        let blk = block(&ti, el(1, true, true), kids);
                        let mut nodes = vec![];
                        match pos {
                            0 => {}
                            1 => nodes.push(Node::Line(String::new())),
                            _ => nodes.push(Node::Line("before();".into())),
                        }
                        nodes.push(blk);
                        nodes.push(Node::Line("after();".into()));
                        v.push(case_of(nodes, true, unit));
                    }
                }
            }
        }
    }
    v
}

// ---- checks ------------------------------------------------------------------------------------------------------

pub fn check(ctx: &mut Ctx, id: &'static str) {
    let which = match id {
        "C11" => Which::C11,
        "C12" => Which::C12,
        _ => Which::C13,
    };
    let kf1 = ctx.is_known("first-line-indented-ready-tag-adjacent-removal");
    let kf_adjacent = ctx.is_known("adjacent-removed-parts");
    let kf_blank = ctx.is_known("blank-lines-on-both-sides");
    ctx.assume("documents are block-style: every tag stands alone on its line; the text contains no delimiter characters outside tags");
    if kf1 {
        ctx.assume("known finding KF1 (line 1 is an indented ready opening tag whose removal is directly followed by another removal) is excluded by its input signature and counted");
    }
    ctx.replay_corpus(|sub, case, obs| replay(id, sub, case, obs));
    ctx.run_known_witnesses(|sub, case, obs| replay_strict(id, sub, case, obs));
    match which {
        Which::C11 => {
            ctx.rule = "cases = block-style AST documents (ground truth per line by construction) with unwrap-block elements having 0..6+ lines between the tags, blank / whitespace-only / code wrapper lines, ready and pending default-strategy children among the inner lines, single-line unwrap elements, at any position incl. line 1; 6 delimiter pairs. Oracle: (1) the non-blank output lines, ignoring indentation, equal the input lines minus the four tag/wrapper lines of every unwrappable ready element and minus removed children; (2) nothing removable => output == input; (3) strict sub-space (every removed run is a single seam between surviving non-blank lines): line-for-line equality incl. blank lines. Exhaustive grid over lines-between 0..6 x wrapper kinds x position x indent. Non-trivial = a condition-holding unwrap element with <= 3 lines between the tags or on a single line, or a child element in an unwrapped body.".into();
            ctx.assume("tags never sit on wrapper lines; no unwrap-block inside an unwrapped body (C12 covers nesting); blank residue next to adjacent seams is not asserted outside the strict sub-space");
            ctx.exhaustive("grid", "lines between 0..6 x 3x3 wrapper kinds x 3 positions x 3 tag indents x 2 inner indents x final newline x optional ready child", (0..=6usize).collect(), move |between, obs| {
                for c in c11_grid(*between) {
                    obs.eval();
                    if let Verdict::Fail(m) = oracle_c11_kf(&c, obs, kf1, true, kf_adjacent, kf_blank) {
                        return Some(fail_case("grid", &c, m));
                    }
                }
                None
            });
            for c in ["lines-between=0", "lines-between=1", "lines-between=2", "lines-between=3", "strict-line-for-line", "single-line-unwrap", "child-element-in-unwrapped-body"] {
                ctx.require_class(c);
            }
            ctx.random("ast-documents", 400, 400_000, 30_000_000, |t| gen(t, which), |c, obs| oracle_c11_kf(c, obs, kf1, false, kf_adjacent, kf_blank));
            ctx.reshrink::<AstCase, _, _>("ast-documents", |c, obs| oracle_c11_kf(c, obs, kf1, false, kf_adjacent, kf_blank), crate::props::clean::shrink_ast);
        }
        Which::C12 => {
            ctx.rule = "cases = block-style AST documents with unwrap-block elements over indentation units {2 spaces, 4 spaces, tab}, tag indent 0..2 units (+ jitter), inner lines indented below / at / above the first inner line, multi-byte text, default-strategy children, unwrap nesting depth <= 3, block on line 1 / after an empty first line / later. Oracle: every non-blank output line equals the by-construction expectation: a surviving inner line with l leading blanks loses clamp(l - t, 0, max(0, f - t)) blanks at byte offset t (t = tag indent, f = first inner line's indent), for every enclosing unwrapped element. Grid: t x f x l x l2 x position x unit. Non-trivial = d > 0 and some inner line with l < f or l <= t.".into();
            ctx.assume("nested unwrap elements whose tag column is left of outer column + outer dedent make the expected result ambiguous and are excluded (counted); whitespace-only inner lines are not asserted; first inner line whitespace-only-but-not-empty excluded");
            ctx.exhaustive("grid", "3 units x tag indent 0..2 x first inner 0..3 x second inner 0..4 x third inner {0,2,4} x 3 positions", (0..3usize).collect(), move |u, obs| {
                for c in c12_grid(*u) {
                    obs.eval();
                    if let Verdict::Fail(m) = oracle_c12(&c, obs, kf1, true) {
                        return Some(fail_case("grid", &c, m));
                    }
                }
                None
            });
            for c in ["unwrap-nesting-depth>=2", "block-on-line-1", "tab-unit", "block-after-empty-first-line"] {
                ctx.require_class(c);
            }
            ctx.random("ast-documents", 400, 800_000, 30_000_000, |t| gen(t, which), |c, obs| oracle_c12(c, obs, kf1, false));
            ctx.reshrink::<AstCase, _, _>("ast-documents", |c, obs| oracle_c12(c, obs, kf1, false), crate::props::clean::shrink_ast);
            let kf7 = ctx.is_known("inline-removal-at-line-start-below-blank-line");
            ctx.require_class("ready-element-with-multi-line-opening-tag");
            ctx.require_class("body-line-begins-with-inline-removal");
            ctx.require_class("unwrapped-body-with-inline-elements");
            ctx.random("inline-in-bodies", 400, 400_000, 20_000_000, gen_c12_mixed, |c, obs| oracle_c12_mixed(c, obs, kf1, kf7));
            ctx.reshrink::<AstCase, _, _>("inline-in-bodies", |c, obs| oracle_c12_mixed(c, obs, kf1, kf7), crate::props::clean::shrink_ast);
        }
        Which::C13 => {
            ctx.rule = "cases = block-style AST documents, default strategy only: blank and whitespace-only lines in any number around blocks, nesting in pending / skip / unregistered parents, multi-byte lines, with / without final newline, 3 indentation units. Oracle: (1) non-blank output lines == surviving non-blank input lines byte for byte in order; (2) for every removed block that is a single element, has surviving non-blank lines before and after and b / a blank lines directly around it: exactly a+b-[a>0 and b>0] blank lines remain between its neighbours. Exhaustive grid (b,a) in 0..4 x 4x4 blank styles x indent x content x pending parent x position x final newline. Non-trivial = a removed block with a+b > 0 or nested in a pending parent.".into();
            ctx.assume("the blank-line formula is asserted only under the property's own precondition");
            ctx.exhaustive("grid", "(b,a) in 0..4 x blank styles x 3 indents x 3 contents x pending parent x 3 positions x final newline, 3 units", (0..3usize).collect(), move |u, obs| {
                for c in c13_grid(*u) {
                    obs.eval();
                    if let Verdict::Fail(m) = oracle_c13(&c, obs, kf1, true) {
                        return Some(fail_case("grid", &c, m));
                    }
                }
                None
            });
            for c in ["formula b=1 a=1", "formula b=0 a=0", "formula b=3 a=3", "removed-block-in-pending-parent"] {
                ctx.require_class(c);
            }
            ctx.random("ast-documents", 400, 400_000, 30_000_000, |t| gen(t, which), |c, obs| oracle_c13(c, obs, kf1, false));
            ctx.reshrink::<AstCase, _, _>("ast-documents", |c, obs| oracle_c13(c, obs, kf1, false), crate::props::clean::shrink_ast);
            // removed blocks deep inside pending parents (nesting depth far beyond the random generator's 3)
            let mut deep: Vec<AstCase> = vec![];
            for k in [4usize, 9, 17, 33, 65, 130] {
                for unit in ["  ", "\t"] {
                    let ind = unit.repeat(k.min(6));
                    let ready = |id: usize| Node::Block { indent: ind.clone(), open_lead: String::new(), elem: Elem { id, cond: Cond::Rm(0), skip: false, unwrap: false, style: 0 }, open_trail: String::new(), kids: vec![Node::Line(format!("{ind}{unit}gone{id}();"))], close_indent: ind.clone(), close_lead: String::new(), close_trail: String::new() };
                    let inner = vec![Node::Line(format!("{ind}keep_a();")), ready(k + 1), Node::Line(format!("{ind}keep_b();")), Node::Line(String::new()), ready(k + 2), Node::Line(String::new()), Node::Line(format!("{ind}keep_c();"))];
                    let doc = astgen::deep_doc(k, &[(Cond::Tl(3), false), (Cond::Rm(1), false)], unit, inner);
                    deep.push(AstCase { doc, spell: Spell { ds: "<!-- <".into(), de: "> -->".into(), tl: "tl".into(), rm: "rm".into(), unreg: "zz".into() }, cfg: ACfg { now_idx: 3, targets: 1 } });
                }
            }
            let n = deep.len();
            ctx.exhaustive("deep-nesting", &format!("{n} documents with two removed blocks inside 4..130 nested pending parents"), deep.into_iter().map(|c| vec![c]).collect(), move |cs, obs| {
                for c in cs {
                    obs.eval();
                    if let Verdict::Fail(m) = oracle_c13(c, obs, kf1, true) {
                        return Some(fail_case("deep-nesting", c, truncate(&m, 1500)));
                    }
                }
                None
            });
        }
    }
}

fn dispatch(id: &str, c: &AstCase, obs: &mut Obs, kf1: bool) -> Verdict {
    match id {
        "C11" => {
            let known = load_known("C11");
            let has = |sig: &str| kf1 && known.iter().any(|k| k.signature == sig);
            oracle_c11_kf(c, obs, has("first-line-indented-ready-tag-adjacent-removal"), false, has("adjacent-removed-parts"), has("blank-lines-on-both-sides"))
        }
        "C12" => oracle_c12(c, obs, kf1, false),
        _ => oracle_c13(c, obs, kf1, false),
    }
}

pub fn replay(id: &str, sub: &str, case: &Value, obs: &mut Obs) -> Result<Verdict, String> {
    if id == "C12" && sub == "inline-in-bodies" {
        let known = load_known("C12");
        let kf1 = known.iter().any(|k| k.signature == "first-line-indented-ready-tag-adjacent-removal");
        let kf7 = known.iter().any(|k| k.signature == "inline-removal-at-line-start-below-blank-line");
        return replay_case::<AstCase, _>(case, obs, |c, obs| {
            obs.eval();
            oracle_c12_mixed(c, obs, kf1, kf7)
        });
    }
    let kf1 = !load_known(id).is_empty();
    replay_case::<AstCase, _>(case, obs, |c, obs| {
        obs.eval();
        dispatch(id, c, obs, kf1)
    })
}

/// replay without known-finding exclusions (used for the witnesses of known findings)
pub fn replay_strict(id: &str, sub: &str, case: &Value, obs: &mut Obs) -> Result<Verdict, String> {
    if id == "C12" && sub == "inline-in-bodies" {
        return replay_case::<AstCase, _>(case, obs, |c, obs| oracle_c12_mixed(c, obs, false, false));
    }
    replay_case::<AstCase, _>(case, obs, |c, obs| dispatch(id, c, obs, false))
}

// ---- C12 on documents with inline elements inside unwrapped bodies ---------------------------------------------------

pub fn opts_c12_mixed() -> Opts {
    let mut o = opts(Which::C12);
    o.inline = true;
    o.shared_pct = 8;
    o.unwrap_pct = 60;
    o.tags_on_wrappers = true;
    o.unwrap_tags_shared = false;
    o.adjacent_pct = 40;
    o
}

pub fn gen_c12_mixed(t: &mut Tape) -> AstCase {
    let o = opts_c12_mixed();
    let (doc, spell) = astgen::gen_doc(t, &o);
    let mut cfg = astgen::gen_acfg(t);
    if t.chance(70) {
        cfg.now_idx = 3 + t.below(2);
        cfg.targets = 7;
    }
    let mut doc = doc;
    if t.chance(20) {
        let mut next_id = 900;
        plant_inline_pair(&mut doc.nodes, t, &mut next_id);
    }
    AstCase { doc, spell, cfg }
}

/// Into the body of some unwrap-block: a line that is only an (indented) inline element followed by blanks, and below it a
/// line that begins at column 0 or 1 with an inline element followed by code. After removal the first line is
/// whitespace-only and the second begins with a seam: two tidied positions whose ranges are not in ascending order.
fn plant_inline_pair(nodes: &mut Vec<Node>, t: &mut Tape, next_id: &mut usize) -> bool {
    for n in nodes.iter_mut() {
        if let Node::Block { elem, kids, .. } = n {
            if elem.unwrap && kids.len() >= 3 && t.chance(60) {
                let at = 1 + t.below(kids.len() - 1);
                let mk = |id: usize| astgen::Elem { id, cond: astgen::Cond::Rm(0), skip: false, unwrap: false, style: 0 };
                let ind = " ".repeat(2 + 2 * t.below(4));
                let a = Node::Inline { pre: ind, elem: mk(*next_id), content: "m".into(), post: t.s(&["  ", " ", "", "\t"]).to_string() };
                let b = Node::Inline { pre: t.s(&["", " "]).to_string(), elem: mk(*next_id + 1), content: "m".into(), post: format!("d(); P{}", *next_id) };
                *next_id += 2;
                kids.insert(at, b);
                kids.insert(at, a);
                return true;
            }
            if plant_inline_pair(kids, t, next_id) {
                return true;
            }
        }
    }
    false
}

/// C12 where lines may be partly removed (inline elements): the text after removal is split into lines, every
/// non-blank line that starts inside an unwrapped body must show the by-construction dedent.
pub fn oracle_c12_mixed(c: &AstCase, obs: &mut Obs, kf1: bool, kf7: bool) -> Verdict {
    let r = astgen::render(&c.doc, &c.spell);
    if let Err(why) = astgen::in_domain(&r, &opts_c12_mixed().domain()) {
        obs.excluded(why);
        return Verdict::Pass;
    }
    let cfg = c.cfg.to_cfg(&c.spell);
    let tr = astgen::truth(&r, &c.cfg);
    if tr.undefined {
        obs.excluded("ready-unwrap-with-shared-tag-lines");
        return Verdict::Pass;
    }
    if refmodel::ref_tags(&r.src, &c.spell.ds, &c.spell.de).len() != 2 * r.elems.len() {
        obs.excluded("rendering-does-not-tokenize-as-intended");
        return Verdict::Pass;
    }
    let src = &r.src;
    let sb = src.as_bytes();
    let n_lines = r.lines.len();
    let line_of_off = |off: usize| -> usize {
        match r.lines.binary_search_by(|(s, e)| if off < *s { std::cmp::Ordering::Greater } else if off > *e { std::cmp::Ordering::Less } else { std::cmp::Ordering::Equal }) {
            Ok(i) => i,
            Err(i) => i.min(n_lines.saturating_sub(1)),
        }
    };
    let src_line = |l: usize| &src[r.lines[l].0..r.lines[l].1];
    // unwrapped elements: (tag column t, dedent d, first body line, last body line)
    let mut blocks: Vec<(usize, usize, usize, usize)> = vec![];
    let mut ambiguous_nested = false;
    let mut bound = vec![0usize; n_lines];
    for (i, e) in r.elems.iter().enumerate() {
        if tr.decisions[i] != Decision::Ready {
            continue;
        }
        if let Extent::Parts(..) = tr.extents[i] {
            if !tr.keep[e.open.0.saturating_sub(0)] && e.open.0 > 0 && false {
                continue;
            }
            // inside a removed region?
            let mut p = e.parent;
            let mut gone = false;
            while let Some(q) = p {
                if tr.decisions[q] == Decision::Ready && matches!(tr.extents[q], Extent::Whole(_)) {
                    gone = true;
                }
                p = r.elems[q].parent;
            }
            if gone {
                continue;
            }
            let t = lead(src_line(e.open_first_line));
            if e.close_line - e.open_line - 1 <= 2 {
                continue; // no inner line
            }
            let lf = e.open_line + 2;
            let f_src = lead(src_line(lf));
            // what the first inner line looks like after removal: the kept bytes from its start up to the next kept line break
            let ls = r.lines[lf].0;
            if !tr.keep[ls.min(sb.len() - 1)] {
                // a removed child continues the opening part: which line is "the first inner line" is open
                obs.excluded("ambiguous-first-inner-indent(removed-region-at-its-start)");
                return Verdict::Pass;
            }
            let mut first_r: Vec<u8> = vec![];
            for k in ls..sb.len() {
                if tr.keep[k] {
                    if sb[k] == b'\n' {
                        break;
                    }
                    first_r.push(sb[k]);
                }
            }
            let kl = String::from_utf8_lossy(&first_r).to_string();
            if is_blank(&kl) && !kl.is_empty() && kl.len() != f_src {
                obs.excluded("first-inner-line-whitespace-only");
                return Verdict::Pass;
            }
            if is_blank(src_line(lf)) && !src_line(lf).is_empty() {
                obs.excluded("first-inner-line-whitespace-only");
                return Verdict::Pass;
            }
            if lead(&kl) != f_src {
                obs.excluded("ambiguous-first-inner-indent(removed-region-at-its-start)");
                return Verdict::Pass;
            }
            let d = f_src.saturating_sub(t);
            if t < bound[e.open_line] {
                ambiguous_nested = true;
            }
            for b in bound.iter_mut().take(e.close_line - 1).skip(e.open_line + 2) {
                *b = (*b).max(t + d);
            }
            blocks.push((t, d, e.open_line + 2, e.close_line - 2));
        }
    }
    if ambiguous_nested {
        obs.excluded("ambiguous-nested-dedent");
        return Verdict::Pass;
    }
    // text after removal, with the source offset of every byte
    let mut rb: Vec<u8> = vec![];
    let mut ro: Vec<usize> = vec![];
    for (k, b) in sb.iter().enumerate() {
        if tr.keep[k] {
            rb.push(*b);
            ro.push(k);
        }
    }
    let rtext = String::from_utf8_lossy(&rb).to_string();
    // expected non-blank lines
    let mut exp: Vec<(String, bool)> = vec![]; // (text, indentation asserted?)
    // for lines inside an unwrapped body: the leading blanks the line has in the text after removal
    let mut in_body_lead: Vec<Option<usize>> = vec![];
    let mut pos = 0usize;
    let mut prev_blank = false;
    let mut first_nonblank_seen = false;
    let kf1_hit = kf1 && kf1_signature(&r, &tr);
    let mut nt = false;
    for line in rtext.split('\n') {
        let start = pos;
        pos += line.len() + 1;
        if is_blank(line) {
            prev_blank = true;
            continue;
        }
        let first_off = ro[start];
        let l_src = line_of_off(first_off);
        let mut text = line.to_string();
        let li = lead(line);
        let mut assert_indent = true;
        // leading blanks that are not the source line's own leading blanks: not asserted
        let src_lead = lead(src_line(l_src));
        let starts_at_line_start = first_off == r.lines[l_src].0;
        if !starts_at_line_start || li != src_lead {
            assert_indent = false;
        }
        // C12 speaks about the lines of unwrapped bodies only
        if !blocks.iter().any(|(_, _, a, b)| l_src >= *a && l_src <= *b) {
            assert_indent = false;
        }
        // KF7: the line begins (after its indentation) with a removed region and the line above is blank after removal
        let after_indent = r.lines[l_src].0 + src_lead;
        let begins_with_removed = after_indent < r.lines[l_src].1 && !tr.keep[after_indent];
        if begins_with_removed && prev_blank {
            if kf7 {
                assert_indent = false;
                obs.excluded("KF7:inline-removal-at-line-start-below-blank-line(indentation of that line not asserted)");
            }
        }
        if kf1_hit && !first_nonblank_seen && !tr.keep[0.max(r.lines[0].0 + lead(src_line(0))).min(sb.len() - 1)] {
            assert_indent = false;
        }
        first_nonblank_seen = true;
        let mut ds: Vec<(usize, usize)> = blocks.iter().filter(|(_, _, a, b)| l_src >= *a && l_src <= *b).map(|(t, d, _, _)| (*t, *d)).collect();
        ds.sort_by(|a, b| b.0.cmp(&a.0));
        for (t, d) in &ds {
            let rm = li.saturating_sub(*t).min(*d);
            if rm > 0 {
                let cut = (*t).min(text.len());
                let end = (cut + rm).min(lead(&text).max(cut));
                if end > cut {
                    text.replace_range(cut..end, "");
                }
                if *d > 0 && (li < t + d || li <= *t) {
                    nt = true;
                }
            }
        }
        if !ds.is_empty() && begins_with_removed {
            obs.class("body-line-begins-with-inline-removal");
        }
        exp.push((text, assert_indent));
        in_body_lead.push(if ds.is_empty() { None } else { Some(li) });
        prev_blank = false;
    }
    let out = match call_clean(src, &cfg) {
        Ok(o) => o,
        Err(p) => vfail!("clean panicked: {p}\n  src = {:?}", src),
    };
    let got: Vec<&str> = out.split('\n').filter(|l| !is_blank(l)).collect();
    let same = exp.len() == got.len() && exp.iter().zip(got.iter()).all(|((e, strict), g)| if *strict { e == g } else { e.trim_start_matches([' ', '\t']) == g.trim_start_matches([' ', '\t']) });
    if !same {
        let k = exp.iter().zip(got.iter()).take_while(|((e, strict), g)| if *strict { e == *g } else { e.trim_start_matches([' ', '\t']) == g.trim_start_matches([' ', '\t']) }).count();
        vfail!("non-blank output line {k} is {:?}, expected {:?} (lines inside an unwrapped body move left by min(first inner indent - tag indent, own indent - tag indent); everything else keeps its text){}", got.get(k), exp.get(k).map(|e| &e.0), show(src, &out));
    }
    // "only spaces and tabs are ever consumed": whatever the dedent, a line inside an unwrapped body never has MORE leading
    // blanks than it has in the text after removal (also where the exact amount is not asserted)
    for (k, (g, l)) in got.iter().zip(in_body_lead.iter()).enumerate() {
        if let Some(l) = l {
            if lead(g) > *l && !(kf1_hit && k == 0) {
                vfail!("non-blank output line {k} {:?} has {} leading blanks, but only {l} in the text after removal: a line inside an unwrapped body never gains indentation{}", g, lead(g), show(src, &out));
            }
        }
    }
    if nt || (!blocks.is_empty() && r.elems.iter().any(|e| e.inline)) {
        obs.class("unwrapped-body-with-inline-elements");
        obs.nontrivial(c, || json!({"src": src, "out": out}));
    }
    Verdict::Pass
}
