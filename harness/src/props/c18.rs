//! C18: behaviour is independent of the spelling of delimiters and tag names (metamorphic).

use crate::astgen::{self, ACfg, Doc, Opts, Spell};
use crate::engine::*;
use crate::pools::{delim_chars, words_for, REGULAR_DELIMS};
use crate::refmodel::ref_tags;
use crate::util::*;
use crate::vfail;
use serde::{Deserialize, Serialize};
use serde_json::{json, Value};

#[derive(Serialize, Deserialize, Clone, Hash, Debug)]
pub struct RespellCase {
    pub doc: Doc,
    pub a: Spell,
    pub b: Spell,
    pub cfg: ACfg,
}

pub const NAME_SETS: &[(&str, &str, &str)] = &[("tl", "rm", "zz"), ("time-limited", "removal-marker", "other"), ("期限", "目印", "他"), ("t", "r", "z"), ("T-L", "R.M", "x_x")];

/// Re-spell a text from spelling `a` to spelling `b`: text tokens verbatim, tag tokens with b's
/// delimiters and the tag name mapped.
pub fn respell(text: &str, a: &Spell, b: &Spell) -> String {
    let mut o = String::new();
    let mut pos = 0;
    for (s, e) in ref_tags(text, &a.ds, &a.de) {
        o.push_str(&text[pos..s]);
        o.push_str(&b.ds);
        let body = &text[s + a.ds.len()..e - a.de.len()];
        o.push_str(&map_name(body, a, b));
        o.push_str(&b.de);
        pos = e;
    }
    o.push_str(&text[pos..]);
    o
}

fn map_name(body: &str, a: &Spell, b: &Spell) -> String {
    let lead_len = body.len() - body.trim_start_matches(' ').len();
    let (lead, rest) = body.split_at(lead_len);
    let (slash, rest) = match rest.strip_prefix('/') {
        Some(r) => ("/", r),
        None => ("", rest),
    };
    for (from, to) in [(&a.tl, &b.tl), (&a.rm, &b.rm), (&a.unreg, &b.unreg)] {
        if let Some(after) = rest.strip_prefix(from.as_str()) {
            if after.is_empty() || after.starts_with(' ') || after.starts_with('\n') {
                return format!("{lead}{slash}{to}{after}");
            }
        }
    }
    body.to_string()
}

fn status_seq(js: &str) -> Result<Vec<(u64, u64, bool)>, String> {
    Ok(parse_items(js)?.iter().map(|i| (i.first, i.last, i.ready)).collect())
}

pub fn oracle(c: &RespellCase, obs: &mut Obs) -> Verdict {
    let ra = astgen::render(&c.doc, &c.a);
    let rb = astgen::render(&c.doc, &c.b);
    // both renderings must tokenize into exactly the intended tags, and be re-spellings of each other
    let n = 2 * ra.elems.len();
    if ref_tags(&ra.src, &c.a.ds, &c.a.de).len() != n || ref_tags(&rb.src, &c.b.ds, &c.b.de).len() != n {
        obs.excluded("rendering-does-not-tokenize-as-intended");
        return Verdict::Pass;
    }
    // a multi-line opening tag that an unwrap-block part would cut in two (one of its lines is a wrapper line, or it begins on
    // the unwrap-block's tag line): the output then contains half a tag, which no re-spelling of complete tags can map
    let cut = ra.elems.iter().enumerate().any(|(i, u)| {
        u.unwrap && !u.inline && u.open_line != u.close_line && ra.elems.iter().enumerate().any(|(k, o)| k != i && o.open_first_line != o.open_line && (o.open_first_line..=o.open_line).any(|l| l == u.open_line || l == u.open_line + 1 || l + 1 == u.close_line))
    });
    if cut {
        obs.excluded("multi-line-tag-cut-by-an-unwrap-part");
        return Verdict::Pass;
    }
    if respell(&ra.src, &c.a, &c.b) != rb.src {
        return Verdict::Broken(format!("re-spelling the A rendering does not give the B rendering:\n  A = {:?}\n  B = {:?}", ra.src, rb.src));
    }
    let (ca, cb) = (c.cfg.to_cfg(&c.a), c.cfg.to_cfg(&c.b));
    let oa = match call_clean(&ra.src, &ca) {
        Ok(o) => o,
        Err(p) => vfail!("clean panicked under spelling A ({:?},{:?}): {p}\n  src = {:?}", c.a.ds, c.a.de, ra.src),
    };
    let ob = match call_clean(&rb.src, &cb) {
        Ok(o) => o,
        Err(p) => vfail!("clean panicked under spelling B ({:?},{:?}): {p}\n  src = {:?}", c.b.ds, c.b.de, rb.src),
    };
    let exp_b = respell(&oa, &c.a, &c.b);
    if exp_b != ob {
        vfail!("cleaning under spelling B = ({:?}, {:?}, names {:?}/{:?}) differs from the re-spelled result of spelling A = ({:?}, {:?}, names {:?}/{:?})\n  source A = {:?}\n  source B = {:?}\n  clean A  = {:?}\n  clean B  = {:?}\n  expected = {:?}", c.b.ds, c.b.de, c.b.tl, c.b.rm, c.a.ds, c.a.de, c.a.tl, c.a.rm, truncate(&ra.src, 900), truncate(&rb.src, 900), truncate(&oa, 900), truncate(&ob, 900), truncate(&exp_b, 900));
    }
    let la = call_list(&ra.src, &ca, true, true).and_then(|j| status_seq(&j));
    let lb = call_list(&rb.src, &cb, true, true).and_then(|j| status_seq(&j));
    match (la, lb) {
        (Ok(x), Ok(y)) => {
            if x != y {
                vfail!("list_all line ranges / statuses differ between the spellings: A = {:?}, B = {:?}\n  source A = {:?}\n  source B = {:?}", x, y, truncate(&ra.src, 900), truncate(&rb.src, 900));
            }
        }
        (Err(e), _) => vfail!("list_all failed under spelling A: {e}\n  src = {:?}", ra.src),
        (_, Err(e)) => vfail!("list_all failed under spelling B: {e}\n  src = {:?}", rb.src),
    }
    obs.evals(3);
    obs.class(&format!("A={:?}", c.a.ds));
    obs.class(&format!("B={:?}", c.b.ds));
    let tr = astgen::truth(&ra, &c.cfg);
    let survives = tr.keep.iter().filter(|k| **k).count() > 0 && ra.elems.iter().any(|e| tr.keep[e.open.0]);
    let differ = c.a.ds.len() != c.b.ds.len() || !c.a.ds.is_ascii() || !c.b.ds.is_ascii() || c.a.ds.contains(' ') || c.b.ds.contains(' ') || c.a.ds == c.a.de || c.b.ds == c.b.de || c.a.tl != c.b.tl;
    if tr.n_ready > 0 && survives && differ {
        if c.a.tl != c.b.tl {
            obs.class("tag-names-differ");
        }
        if c.a.ds == c.a.de || c.b.ds == c.b.de {
            obs.class("identical-start-and-end-delimiter");
        }
        obs.nontrivial(c, || json!({"A": [c.a.ds, c.a.de, c.a.tl, c.a.rm], "B": [c.b.ds, c.b.de, c.b.tl, c.b.rm], "source_A": ra.src, "clean_B": ob}));
    }
    Verdict::Pass
}

fn opts() -> Opts {
    let mut o = Opts::base();
    o.inline = true;
    o.nested_unwrap = true;
    o.tags_on_wrappers = true;
    o.blank_wrappers = true;
    o.first_line_empty_pct = 5;
    o.multiline_tag_pct = 10;
    o.close_attr_pct = 8;
    // an unwrap-block tag that shares its line with a surviving tag: the column of the tag then depends on the spelling of
    // what stands in front of it, and so must the result
    o.unwrap_tags_shared = true;
    o.join_pct = 10;
    o
}

fn spell_of(pair: (&str, &str), names: (&str, &str, &str)) -> Spell {
    Spell { ds: pair.0.into(), de: pair.1.into(), tl: names.0.into(), rm: names.1.into(), unreg: names.2.into() }
}

pub fn gen(t: &mut Tape) -> RespellCase {
    let n = REGULAR_DELIMS.len();
    let ia = t.below(n);
    let mut ib = t.below(n - 1);
    if ib >= ia {
        ib += 1;
    }
    // mode 0: delimiters differ; 1: only names differ; 2: both
    let mode = t.below(4);
    let na = t.below(NAME_SETS.len());
    let mut nb = t.below(NAME_SETS.len() - 1);
    if nb >= na {
        nb += 1;
    }
    let (pa, pb, na, nb) = match mode {
        0 | 1 => (REGULAR_DELIMS[ia], REGULAR_DELIMS[ib], NAME_SETS[0], NAME_SETS[0]),
        2 => (REGULAR_DELIMS[ia], REGULAR_DELIMS[ia], NAME_SETS[na], NAME_SETS[nb]),
        _ => (REGULAR_DELIMS[ia], REGULAR_DELIMS[ib], NAME_SETS[na], NAME_SETS[nb]),
    };
    let a = spell_of(pa, na);
    let b = spell_of(pb, nb);
    if t.chance(6) {
        // a ready unwrap-block whose opening tag stands behind the closing tag of a pending sibling on the same line, with a
        // deeply indented body: the column of the unwrap tag depends on the spelling of the tag in front of it, the result must not
        use astgen::{Cond, Elem, Node};
        let mk = |id: usize, cond: Cond, unwrap: bool| Elem { id, cond, skip: false, unwrap, style: 0 };
        let deep = " ".repeat(3 + t.below(14));
        let tag_ind = " ".repeat(t.below(3));
        let sep = t.s(&["", " ", "  "]).to_string();
        let nodes = vec![
            Node::Line("start();".into()),
            Node::Block { indent: tag_ind.clone(), open_lead: String::new(), elem: mk(901, Cond::Rm(1), false), open_trail: String::new(), kids: vec![Node::Line(format!("{tag_ind}kept();"))], close_indent: tag_ind.clone(), close_lead: String::new(), close_trail: String::new() },
            Node::Join(sep),
            Node::Block {
                indent: String::new(),
                open_lead: String::new(),
                elem: mk(902, Cond::Rm(0), true),
                open_trail: String::new(),
                kids: vec![Node::Line(format!("{tag_ind}if (flag) {{")), Node::Line(format!("{deep}run();")), Node::Line(format!("{deep}  more();")), Node::Line(format!("{tag_ind}}}"))],
                close_indent: tag_ind.clone(),
                close_lead: String::new(),
                close_trail: String::new(),
            },
            Node::Line("end();".into()),
        ];
        let doc = Doc { nodes, final_newline: t.chance(50), unit: "  ".into() };
        return RespellCase { doc, a, b, cfg: ACfg { now_idx: 0, targets: 1 } };
    }
    let words = words_for(&[pa, pb]);
    let mut bad = delim_chars(pa.0, pa.1);
    bad.extend(delim_chars(pb.0, pb.1));
    let o = opts();
    let doc = astgen::gen_doc_with(t, &o, words, bad);
    let cfg = astgen::gen_acfg(t);
    RespellCase { doc, a, b, cfg }
}

pub fn check(ctx: &mut Ctx) {
    ctx.rule = "cases = (abstract AST document, spelling A, spelling B, configuration): the same document is rendered under both spellings (ordered pairs of 18 delimiter spellings incl. multi-byte, space-containing, identical start/end, regex-special ones; 5 tag-name sets incl. multi-byte and punctuation). Oracle (metamorphic): clean_B(render_B) == respell(clean_A(render_A)) byte for byte, where respell re-emits reference-tokenized tags with B's delimiters and names; list_all (line range, status) sequences are equal. Non-trivial = the spellings differ in length / multi-byte / space / identical delimiters / names, at least one element is ready and at least one tag survives.".into();
    ctx.assume("the non-blank delimiter characters of both spellings do not occur in the text outside tags; renderings that do not reference-tokenize into the intended tags are discarded and counted");
    ctx.require_class("tag-names-differ");
    ctx.require_class("identical-start-and-end-delimiter");
    for (ds, _) in REGULAR_DELIMS {
        ctx.require_class(&format!("A={:?}", ds));
        ctx.require_class(&format!("B={:?}", ds));
    }
    ctx.replay_corpus(replay);
    ctx.random("respell", 420, 250_000, 15_000_000, gen, oracle);
    ctx.reshrink::<RespellCase, _, _>("respell", oracle, |c, fails| {
        let doc = astgen::minimize_doc(&c.doc, |d| fails(&RespellCase { doc: d.clone(), a: c.a.clone(), b: c.b.clone(), cfg: c.cfg.clone() }));
        RespellCase { doc, a: c.a.clone(), b: c.b.clone(), cfg: c.cfg.clone() }
    });
}

pub fn replay(_sub: &str, case: &Value, obs: &mut Obs) -> Result<Verdict, String> {
    replay_case::<RespellCase, _>(case, obs, |c, obs| {
        obs.eval();
        oracle(c, obs)
    })
}
