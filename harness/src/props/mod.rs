pub mod c01;
pub mod c05;
pub mod c06;
pub mod c09;
pub mod c10;
pub mod c18;
pub mod c19;
pub mod c20;
pub mod lines;
pub mod lists;
pub mod clean;
pub mod tok;

use crate::engine::{Ctx, Obs, Verdict};
use serde_json::Value;

pub const ALL: &[&str] = &["C07", "C08", "C10"];

pub fn run(ctx: &mut Ctx) -> bool {
    match ctx.property.as_str() {
        "C07" => tok::check(ctx, "C07"),
        "C08" => tok::check(ctx, "C08"),
        "C10" => c10::check(ctx),
        "C20" => c20::check(ctx),
        "C18" => c18::check(ctx),
        "C19" => c19::check(ctx),
        "C15" => lists::check(ctx, "C15"),
        "C16" => lists::check(ctx, "C16"),
        "C17" => lists::check(ctx, "C17"),
        "C11" => lines::check(ctx, "C11"),
        "C12" => lines::check(ctx, "C12"),
        "C13" => lines::check(ctx, "C13"),
        "C09" => c09::check(ctx),
        "C06" => c06::check(ctx),
        "C05" => c05::check(ctx),
        "C01" => c01::check(ctx),
        "C02" => clean::check(ctx, "C02"),
        "C03" => clean::check(ctx, "C03"),
        "C04" => clean::check(ctx, "C04"),
        "C14" => clean::check(ctx, "C14"),
        _ => return false,
    }
    true
}

pub fn replay(property: &str, sub: &str, case: &Value, obs: &mut Obs) -> Result<Verdict, String> {
    match property {
        "C07" | "C08" => tok::replay(property, sub, case, obs),
        "C10" => c10::replay(sub, case, obs),
        "C20" => c20::replay(sub, case, obs),
        "C18" => c18::replay(sub, case, obs),
        "C19" => c19::replay(sub, case, obs),
        "C15" | "C16" | "C17" => lists::replay(property, sub, case, obs),
        "C11" | "C12" | "C13" => lines::replay(property, sub, case, obs),
        "C09" => c09::replay(sub, case, obs),
        "C06" => c06::replay(sub, case, obs),
        "C05" => c05::replay(sub, case, obs),
        "C01" => c01::replay(sub, case, obs),
        "C02" | "C03" | "C04" | "C14" => clean::replay(property, sub, case, obs),
        _ => Err(format!("unknown property {property}")),
    }
}
