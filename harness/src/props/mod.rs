pub mod c10;
pub mod tok;

use crate::engine::{Ctx, Obs, Verdict};
use serde_json::Value;

pub const ALL: &[&str] = &["C07", "C08", "C10"];

pub fn run(ctx: &mut Ctx) -> bool {
    match ctx.property.as_str() {
        "C07" => tok::check(ctx, "C07"),
        "C08" => tok::check(ctx, "C08"),
        "C10" => c10::check(ctx),
        _ => return false,
    }
    true
}

pub fn replay(property: &str, sub: &str, case: &Value, obs: &mut Obs) -> Result<Verdict, String> {
    match property {
        "C07" | "C08" => tok::replay(property, sub, case, obs),
        "C10" => c10::replay(sub, case, obs),
        _ => Err(format!("unknown property {property}")),
    }
}
