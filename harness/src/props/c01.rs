//! C01: totality — clean, list, list_all (pretty and JSON) never panic and return valid output.

use crate::astgen::{self, Opts};
use crate::engine::*;
use crate::junkgen::{self, JunkCase};
use crate::pools::{HOSTILE_DELIMS, REGULAR_DELIMS};
use crate::props::tok::{all_pairs, bound_for, enumerate};
use crate::refmodel::ref_tags;
use crate::util::*;
use serde_json::{json, Value};

// ---- breadcrumbs: when CV_BREADCRUMB_DIR is set every case is written (unbuffered) to a per-thread file
// before it runs, so that the parent process can recover the input after an abort of this process -------------

fn crumb_dir() -> &'static Option<String> {
    static D: std::sync::OnceLock<Option<String>> = std::sync::OnceLock::new();
    D.get_or_init(|| std::env::var("CV_BREADCRUMB_DIR").ok())
}

thread_local! {
    static CRUMB: std::cell::RefCell<Option<std::fs::File>> = const { std::cell::RefCell::new(None) };
}

fn breadcrumb(c: &JunkCase) {
    let Some(dir) = crumb_dir() else { return };
    use std::os::unix::fs::FileExt;
    static N: std::sync::atomic::AtomicUsize = std::sync::atomic::AtomicUsize::new(0);
    CRUMB.with(|f| {
        let mut f = f.borrow_mut();
        if f.is_none() {
            let k = N.fetch_add(1, std::sync::atomic::Ordering::SeqCst);
            *f = std::fs::File::create(format!("{dir}/t{k}.json")).ok();
        }
        if let Some(file) = f.as_mut() {
            if let Ok(bytes) = serde_json::to_vec(c) {
                let _ = file.write_at(&bytes, 0);
                let _ = file.set_len(bytes.len() as u64);
            }
        }
    });
}

pub fn oracle(c: &JunkCase, obs: &mut Obs, counted: bool) -> Verdict {
    if c.cfg.ds.is_empty() || c.cfg.de.is_empty() {
        return Verdict::Pass;
    }
    breadcrumb(c);
    let ctx = || format!("\n  src = {:?}\n  delimiters = {:?} / {:?}, offset = {:?}, targets = {:?}, now = {}", truncate(&c.src, 1500), c.cfg.ds, c.cfg.de, c.cfg.offset, c.cfg.targets, c.cfg.now);
    if let Err(p) = call_clean(&c.src, &c.cfg) {
        return Verdict::Fail(format!("clean panicked: {p}{}", ctx()));
    }
    for (all, json_fmt) in [(false, true), (false, false), (true, true), (true, false)] {
        let name = format!("{}({})", if all { "list_all" } else { "list" }, if json_fmt { "JSON" } else { "pretty" });
        match call_list(&c.src, &c.cfg, all, json_fmt) {
            Err(p) => return Verdict::Fail(format!("{name} failed: {p}{}", ctx())),
            Ok(s) => {
                if json_fmt {
                    if let Err(e) = serde_json::from_str::<Value>(&s) {
                        return Verdict::Fail(format!("{name} returned invalid JSON ({e}){}", ctx()));
                    }
                }
            }
        }
    }
    obs.evals(4); // five entry points per case (one counted by the driver)
    let tags = ref_tags(&c.src, &c.cfg.ds, &c.cfg.de);
    if !tags.is_empty() {
        if c.src.chars().last().map(|ch| ch.len_utf8() > 1).unwrap_or(false) {
            obs.class("last-char-multibyte");
        }
        if tags.iter().any(|(s, e)| c.src[s + c.cfg.ds.len()..e - c.cfg.de.len()].trim_matches(|ch| ch == ' ' || ch == '\n').is_empty()) {
            obs.class("blank-tag-body");
        }
        if c.src.contains("unwrap-block") {
            obs.class("has-unwrap-block-tag");
        }
        let mk = || json!({"src": c.src, "delims": [c.cfg.ds, c.cfg.de], "offset": c.cfg.offset, "targets": c.cfg.targets});
        if counted {
            obs.nontrivial_counted(mk);
        } else {
            obs.nontrivial(c, mk);
        }
    }
    obs.max("source-bytes", c.src.len() as u64);
    Verdict::Pass
}

/// atoms that build elements quickly
fn doc_atoms(ds: &str, de: &str) -> Vec<String> {
    let mut v = vec![
        format!("{ds}rm name='a'{de}"),
        format!("{ds}/rm{de}"),
        format!("{ds}rm name='a' unwrap-block{de}"),
        format!("{ds}tl to='2999-01-01 00:00:00'{de}"),
        format!("{ds} {de}"),
        "\n".to_string(),
        "x".to_string(),
        " ".to_string(),
        "é".to_string(),
        ds.to_string(),
    ];
    if de != ds {
        v.push(de.to_string());
    }
    v
}

fn all_opts() -> Opts {
    let mut o = Opts::base();
    let mut d: Vec<(&'static str, &'static str)> = REGULAR_DELIMS.to_vec();
    d.extend(HOSTILE_DELIMS.iter().copied());
    o.delims = d;
    o.inline = true;
    o.nested_unwrap = true;
    o.tags_on_wrappers = true;
    o.unwrap_tags_shared = true;
    o.blank_wrappers = true;
    o.first_line_empty_pct = 10;
    o.unwrap_pct = 50;
    o.join_pct = 5;
    o.multiline_tag_pct = 10;
    o.close_attr_pct = 8;
    o.bom_pct = 5;
    o
}

/// hostile layouts: many shared tag lines, straddling children, text glued to tags, multi-byte words
fn hostile_opts() -> Opts {
    let mut o = all_opts();
    o.delims = vec![("<", ">"), ("<!-- <", "> -->"), ("「", "」"), ("|", "|"), ("[[", "]]")];
    o.shared_pct = 55;
    o.straddle_pct = 30;
    o.adjacent_pct = 60;
    o.multibyte_pct = 45;
    o.unwrap_pct = 65;
    o.max_top = 3;
    o.odd_conditions = false;
    o.join_pct = 20;
    o
}

fn gen_ast_case_with(t: &mut Tape, o: &Opts) -> JunkCase {
    let (doc, sp) = astgen::gen_doc(t, o);
    let mut acfg = astgen::gen_acfg(t);
    if t.chance(70) {
        acfg.now_idx = 4;
        acfg.targets = 7;
    }
    let r = astgen::render(&doc, &sp);
    JunkCase { src: r.src, cfg: acfg.to_cfg(&sp) }
}

fn gen_ast_case(t: &mut Tape) -> JunkCase {
    let o = all_opts();
    let (doc, sp) = astgen::gen_doc(t, &o);
    let acfg = astgen::gen_acfg(t);
    let r = astgen::render(&doc, &sp);
    let mut cfg = acfg.to_cfg(&sp);
    if t.chance(15) {
        cfg.offset = t.s(crate::refmodel::MALFORMED_OFFSET).to_string();
    }
    let mut src = r.src;
    if t.chance(10) {
        src = src.replace('\n', "\r\n");
    }
    if t.chance(10) {
        src.push_str(t.s(&["あ", "😀", "é"]));
    }
    JunkCase { src, cfg }
}

pub fn check(ctx: &mut Ctx) {
    ctx.rule = "cases = (source, delimiter pair, configuration); every case is pushed through clean, list (JSON, pretty) and list_all (JSON, pretty) built with overflow checks. Exhaustive: every string of <= L atoms over {ready tag, closing tag, unwrap-block tag, pending tag, blank tag, line break, 'x', space, multi-byte char, stray delimiters} for 27 delimiter pairs incl. hostile ones (space, line break, quote, letters as delimiters) under 3 offset strings; random: atom soups, AST documents (tags on wrapper lines, shared tag lines, nested unwrap, CRLF, appended multi-byte last character) and mutated AST documents under random times / offsets / target sets. Oracle: returns without panic, list* is Ok, JSON parses. Non-trivial = the reference tokenizer finds at least one tag.".into();
    ctx.assume("delimiters are non-empty");
    ctx.assume("nesting depth is bounded by the generated size (maxima reported); a process abort of the harness (e.g. stack overflow) is reported as inconclusive, not as a violation");
    for c in ["last-char-multibyte", "blank-tag-body", "has-unwrap-block-tag"] {
        ctx.require_class(c);
    }
    ctx.replay_corpus(replay);
    let budget = ctx.tier.pick(150_000u64, 2_000_000u64);
    let mut units = vec![];
    for (ds, de) in all_pairs(true) {
        let atoms = doc_atoms(ds, de);
        let l = bound_for(atoms.len(), budget);
        for first in 0..atoms.len() {
            units.push((ds.to_string(), de.to_string(), atoms.clone(), first, l));
        }
    }
    ctx.exhaustive("atom-documents", &format!("all strings of <= L element-building atoms with atoms^L <= {budget}, per delimiter pair (27 pairs), x 5 entry points"), units, |(ds, de, atoms, first, l), obs| {
        let mut fail = None;
        let mut cfg = Cfg::simple(ds, de);
        enumerate(atoms, *first, *l, &mut |s: &str| {
            cfg.offset = ["+00:00", "junk", ""][s.len() % 3].to_string();
            let case = JunkCase { src: s.to_string(), cfg: cfg.clone() };
            obs.eval();
            if oracle(&case, obs, true).is_fail() {
                let quiet = |src: &str| {
                    let mut st = Stats::new();
                    let mut o = Obs { st: &mut st, frozen: true };
                    oracle(&JunkCase { src: src.to_string(), cfg: case.cfg.clone() }, &mut o, true)
                };
                let min = minimize_text(&case.src, |s| quiet(s).is_fail());
                if let Verdict::Fail(m) = quiet(&min) {
                    fail = Some(fail_case("atom-documents", &JunkCase { src: min, cfg: case.cfg.clone() }, m));
                }
                return false;
            }
            true
        });
        fail
    });
    let mut soup_delims: Vec<(&'static str, &'static str)> = REGULAR_DELIMS.to_vec();
    soup_delims.extend(HOSTILE_DELIMS.iter().copied());
    ctx.random("junk-soup", 200, 250_000, 3_000_000, |t| junkgen::gen_soup(t, &soup_delims, true), |c, obs| oracle(c, obs, false));
    minimize_src_failure(ctx, "junk-soup");
    ctx.random("ast-documents", 400, 250_000, 3_000_000, gen_ast_case, |c, obs| oracle(c, obs, false));
    minimize_src_failure(ctx, "ast-documents");
    let ho = hostile_opts();
    ctx.random("hostile-layouts", 300, 400_000, 4_000_000, |t| gen_ast_case_with(t, &ho), |c, obs| oracle(c, obs, false));
    minimize_src_failure(ctx, "hostile-layouts");
    let mo = all_opts();
    ctx.random("mutated-ast", 400, 150_000, 2_000_000, |t| junkgen::gen_mutated(t, &mo), |c, obs| oracle(c, obs, false));
    minimize_src_failure(ctx, "mutated-ast");
    cli_exit_status(ctx);
    deep_nesting(ctx);
    if ctx.tier == Tier::Thorough {
        let pairs = all_pairs(true);
        let mut seeds = vec![];
        for (i, t) in repo_seed_texts().iter().enumerate() {
            seeds.push(crate::fuzzglue::encode("total", if i % 2 == 0 { 3 } else { 1 }, 0x10, t));
        }
        for (i, (ds, de)) in pairs.iter().enumerate() {
            seeds.push(crate::fuzzglue::encode("total", i as u8, 0x10, &format!("x\n{ds}rm name='a' unwrap-block{de}\n{{ {ds}rm name='a'{de}\n y\n{ds}/rm{de} }}\n{ds}/rm{de}\né")));
        }
        ctx.fuzz_campaign("total", 80_000, 512, seeds, |data| crate::fuzzglue::fuzz_one("total", "C01", data));
        minimize_src_failure(ctx, "junk-soup");
    }
}

/// second shrinking pass over the source text of a failing JunkCase
fn minimize_src_failure(ctx: &mut Ctx, sub: &str) {
    let Some(f) = &ctx.failure else { return };
    if f.sub != sub || f.broken {
        return;
    }
    let Ok(case) = serde_json::from_value::<JunkCase>(f.case.clone()) else { return };
    let quiet = |src: &str| {
        let mut st = Stats::new();
        let mut o = Obs { st: &mut st, frozen: true };
        oracle(&JunkCase { src: src.to_string(), cfg: case.cfg.clone() }, &mut o, false)
    };
    if !quiet(&case.src).is_fail() {
        return;
    }
    let min = minimize_text(&case.src, |s| quiet(s).is_fail());
    if let Verdict::Fail(m) = quiet(&min) {
        let mc = JunkCase { src: min, cfg: case.cfg.clone() };
        ctx.failure = Some(Failure { broken: false, sub: sub.to_string(), case: serde_json::to_value(&mc).unwrap(), tape: None, message: m });
    }
}

pub fn replay(sub: &str, case: &Value, obs: &mut Obs) -> Result<Verdict, String> {
    // cases of the cli-exit-status sub-check are (JunkCase, mode); the library oracle is run on the JunkCase
    let case = if sub == "cli-exit-status" { &case[0] } else { case };
    replay_case::<JunkCase, _>(case, obs, |c, obs| {
        obs.eval();
        oracle(c, obs, false)
    })
}


// ---- isolation of process aborts ---------------------------------------------------------------------------------

fn single_aborts(exe: &std::path::Path, dir: &str, case: &JunkCase) -> Option<bool> {
    let p = format!("{dir}/single.json");
    std::fs::write(&p, serde_json::to_vec(case).ok()?).ok()?;
    let st = std::process::Command::new(exe).args(["c01-single", &p]).stdout(std::process::Stdio::null()).stderr(std::process::Stdio::null()).status().ok()?;
    Some(match st.code() {
        Some(c) => c >= 128,
        None => true,
    })
}

/// The check process died abnormally: re-run it with breadcrumbs, find the case that kills a fresh
/// process, minimise it and report it as a violation. Returns the exit code.
pub fn isolate_abort(exe: &std::path::Path, tier: Tier, seed: u64) -> i32 {
    let dir = format!("{}/.build/tmp/crumbs-{}", verif_dir(), std::process::id());
    let _ = std::fs::remove_dir_all(&dir);
    if std::fs::create_dir_all(&dir).is_err() {
        eprintln!("INCONCLUSIVE property=C01 : cannot create {dir}");
        return 2;
    }
    eprintln!("C01: re-running with breadcrumbs to find the input that aborts the process …");
    let st = std::process::Command::new(exe).args(["check-inner", "C01", tier.name()]).env("CV_BREADCRUMB_DIR", &dir).env("VERIF_SEED", seed.to_string()).stdout(std::process::Stdio::null()).stderr(std::process::Stdio::null()).status();
    let died = match st {
        Ok(s) => s.code().map(|c| c >= 128).unwrap_or(true),
        Err(_) => false,
    };
    if !died {
        eprintln!("INCONCLUSIVE property=C01 : the abnormal termination did not recur with breadcrumbs enabled");
        let _ = std::fs::remove_dir_all(&dir);
        return 2;
    }
    let mut cands: Vec<JunkCase> = vec![];
    if let Ok(rd) = std::fs::read_dir(&dir) {
        for e in rd.filter_map(|e| e.ok()) {
            if let Ok(t) = std::fs::read_to_string(e.path()) {
                if let Ok(c) = serde_json::from_str::<JunkCase>(&t) {
                    cands.push(c);
                }
            }
        }
    }
    cands.sort_by_key(|c| c.src.len());
    let mut culprit = None;
    for c in cands {
        if single_aborts(exe, &dir, &c) == Some(true) {
            culprit = Some(c);
            break;
        }
    }
    let Some(case) = culprit else {
        eprintln!("INCONCLUSIVE property=C01 : the process dies, but none of the last cases of its threads kills a fresh process");
        let _ = std::fs::remove_dir_all(&dir);
        return 2;
    };
    // minimise with one child process per attempt
    let cfg = case.cfg.clone();
    let budget = std::cell::Cell::new(400u32);
    let min = minimize_text(&case.src, |s| {
        if budget.get() == 0 {
            return false;
        }
        budget.set(budget.get() - 1);
        single_aborts(exe, &dir, &JunkCase { src: s.to_string(), cfg: cfg.clone() }) == Some(true)
    });
    let mc = JunkCase { src: min, cfg };
    let _ = std::fs::remove_dir_all(&dir);
    let msg = format!("the process ABORTED (no panic that could be caught: stack overflow, abort or a fatal signal) while cleaning / listing\n  src = {:?}\n  delimiters = {:?} / {:?}, offset = {:?}, targets = {:?}", truncate(&mc.src, 1500), mc.cfg.ds, mc.cfg.de, mc.cfg.offset, mc.cfg.targets);
    let mut ctx = Ctx::new("C01", tier, seed);
    ctx.rule = "abort isolation: the check process died; the case below kills a fresh process".into();
    ctx.stats.evaluations = 1;
    ctx.stats.samples.push(serde_json::to_value(&mc).unwrap_or(Value::Null));
    ctx.failure = Some(Failure { broken: false, sub: "process-abort".into(), case: serde_json::to_value(&mc).unwrap_or(Value::Null), tape: None, message: msg });
    ctx.finish()
}


/// Second observation point: the exit status of the chiritori binary on junk documents.
fn cli_exit_status(ctx: &mut Ctx) {
    use crate::cli::{cli_available, rfc3339, run_cli};
    if ctx.failed() {
        return;
    }
    if !cli_available() {
        ctx.inconclusive = Some("chiritori binary not built (bin/build cli)".into());
        return;
    }
    let n_cases = ctx.tier.pick(1500u64, 15000u64);
    let mut soup_delims: Vec<(&'static str, &'static str)> = REGULAR_DELIMS.to_vec();
    soup_delims.extend(HOSTILE_DELIMS.iter().copied());
    let ho = hostile_opts();
    ctx.max_shrink_iters = 200;
    ctx.random(
        "cli-exit-status",
        300,
        n_cases,
        n_cases * 10,
        |t| {
            let c = if t.chance(50) { junkgen::gen_soup(t, &soup_delims, true) } else { gen_ast_case_with(t, &ho) };
            (c, t.below(4))
        },
        |(c, mode), obs| {
            let mut args = vec![
                format!("--delimiter-start={}", c.cfg.ds),
                format!("--delimiter-end={}", c.cfg.de),
                format!("--time-limited-tag-name={}", c.cfg.tl_tag),
                format!("--removal-marker-tag-name={}", c.cfg.rm_tag),
                format!("--time-limited-time-offset={}", c.cfg.offset),
                format!("--time-limited-current={}", rfc3339(c.cfg.now.min(253_402_300_799), 0)),
            ];
            for t in &c.cfg.targets {
                args.push(format!("--removal-marker-target-name={t}"));
            }
            match mode {
                1 => args.push("--list".into()),
                2 => {
                    args.push("--list-all".into());
                    args.push("--list-json".into());
                }
                3 => args.push("--list-all".into()),
                _ => {}
            }
            match run_cli(&args, Some(c.src.as_bytes()), &[], None) {
                Err(e) => Verdict::Broken(e),
                Ok(o) => {
                    if o.status != 0 || o.stderr.contains("panicked") {
                        return Verdict::Fail(format!("chiritori {:?} exited with status {} on standard input {:?}; stderr: {}", args, o.status, truncate(&c.src, 1200), truncate(&o.stderr, 400)));
                    }
                    if *mode == 2 && serde_json::from_slice::<Value>(&o.stdout).is_err() {
                        return Verdict::Fail(format!("chiritori {:?} printed invalid JSON on standard input {:?}", args, truncate(&c.src, 1200)));
                    }
                    if std::str::from_utf8(&o.stdout).is_err() {
                        return Verdict::Fail(format!("chiritori {:?} printed invalid UTF-8", args));
                    }
                    if !ref_tags(&c.src, &c.cfg.ds, &c.cfg.de).is_empty() {
                        obs.class("cli-run-with-tags");
                        obs.nontrivial(&(c, mode), || json!({"args": args, "stdin": c.src}));
                    }
                    Verdict::Pass
                }
            }
        },
    );
    ctx.max_shrink_iters = 40_000;
}


/// Long chains of open tags (recursion depth of the parser = number of simultaneously open tags).
/// Below the bound everything must work; beyond it the binary is known to overflow its stack (KF4).
fn deep_nesting(ctx: &mut Ctx) {
    if ctx.failed() {
        return;
    }
    let bound = 2500usize;
    let mut cases: Vec<JunkCase> = vec![];
    for (ds, de) in [("<", ">"), ("<!-- <", "> -->")] {
        for k in [50usize, 400, 1200, bound] {
            let cfg = Cfg::simple(ds, de);
            let open = format!("{ds}rm name='a'{de}\n");
            let close = format!("{ds}/rm{de}\n");
            // never closed, closed in order (nested elements), unknown names, crossing tails
            cases.push(JunkCase { src: open.repeat(k), cfg: cfg.clone() });
            cases.push(JunkCase { src: format!("{}x\n{}", open.repeat(k), close.repeat(k)), cfg: cfg.clone() });
            cases.push(JunkCase { src: format!("{ds}zz{de}").repeat(k), cfg: cfg.clone() });
            cases.push(JunkCase { src: format!("{}{}", format!("{ds}tl to='2999-01-01 00:00:00'{de}").repeat(k), format!("{ds}/zz{de}").repeat(k)), cfg: cfg.clone() });
            // only stray closers (each one stays "open" as a pseudo element until the end of the file), then a well-formed ready element
            cases.push(JunkCase { src: format!("{}{open}x\n{close}", format!("{ds}/zz{de}\n").repeat(k)), cfg: cfg.clone() });
        }
    }
    let n = cases.len();
    ctx.exhaustive("deep-nesting", &format!("{n} documents with chains of 50..{bound} simultaneously open tags (never closed / properly nested / unknown names / stray closers), 5 entry points each"), cases.into_iter().map(|c| vec![c]).collect(), |cs, obs| {
        for c in cs {
            obs.eval();
            if let Verdict::Fail(m) = oracle(c, obs, true) {
                let mut small = c.clone();
                small.src = truncate(&c.src, 400);
                return Some(fail_case("deep-nesting", &small, format!("{m} (document of {} bytes)", c.src.len())));
            }
            obs.max("open-tag-chain", c.src.matches(&c.cfg.ds).count() as u64);
        }
        None
    });
    // KF4 witness through the binary (main thread, default 8 MiB stack)
    if ctx.failed() || !ctx.is_known("deep-open-tag-chain") {
        return;
    }
    if !crate::cli::cli_available() {
        return;
    }
    let src = "<!-- <a> -->\n".repeat(40_000);
    if let Ok(o) = crate::cli::run_cli(&[], Some(src.as_bytes()), &[], None) {
        if o.status != 0 {
            let what = ctx.known.iter().find(|k| k.signature == "deep-open-tag-chain").map(|k| k.what.clone()).unwrap_or_default();
            let line = format!("KNOWN-FINDING: property=C01 {what} (KF4; signature=deep-open-tag-chain; the binary exited with status {} on 40000 unclosed tags)", o.status);
            println!("{line}");
            ctx.known_printed.push(line);
        }
    }
}
