//! C01: totality — clean, list, list_all (pretty and JSON) never panic and return valid output.

use crate::astgen::{self, Opts};
use crate::engine::*;
use crate::junkgen::{self, JunkCase};
use crate::pools::{HOSTILE_DELIMS, REGULAR_DELIMS};
use crate::props::tok::{all_pairs, bound_for, enumerate};
use crate::refmodel::ref_tags;
use crate::util::*;
use serde_json::{json, Value};

pub fn oracle(c: &JunkCase, obs: &mut Obs, counted: bool) -> Verdict {
    if c.cfg.ds.is_empty() || c.cfg.de.is_empty() {
        return Verdict::Pass;
    }
    let ctx = || format!("\n  src = {:?}\n  delimiters = {:?} / {:?}, offset = {:?}, targets = {:?}, now = {}", truncate(&c.src, 1500), c.cfg.ds, c.cfg.de, c.cfg.offset, c.cfg.targets, c.cfg.now);
    if let Err(p) = call_clean(&c.src, &c.cfg) {
        return Verdict::Fail(format!("clean panicked: {p}{}", ctx()));
    }
    for (all, json_fmt) in [(false, true), (false, false), (true, true), (true, false)] {
        let name = format!("{}({})", if all { "list_all" } else { "list" }, if json_fmt { "JSON" } else { "pretty" });
        match call_list(&c.src, &c.cfg, all, json_fmt) {
            Err(p) => return Verdict::Fail(format!("{name} failed: {p}{}", ctx())),
            Ok(s) => {
                if json_fmt {
                    if let Err(e) = serde_json::from_str::<Value>(&s) {
                        return Verdict::Fail(format!("{name} returned invalid JSON ({e}){}", ctx()));
                    }
                }
            }
        }
    }
    obs.evals(4); // five entry points per case (one counted by the driver)
    let tags = ref_tags(&c.src, &c.cfg.ds, &c.cfg.de);
    if !tags.is_empty() {
        if c.src.chars().last().map(|ch| ch.len_utf8() > 1).unwrap_or(false) {
            obs.class("last-char-multibyte");
        }
        if tags.iter().any(|(s, e)| c.src[s + c.cfg.ds.len()..e - c.cfg.de.len()].trim_matches(|ch| ch == ' ' || ch == '\n').is_empty()) {
            obs.class("blank-tag-body");
        }
        if c.src.contains("unwrap-block") {
            obs.class("has-unwrap-block-tag");
        }
        let mk = || json!({"src": c.src, "delims": [c.cfg.ds, c.cfg.de], "offset": c.cfg.offset, "targets": c.cfg.targets});
        if counted {
            obs.nontrivial_counted(mk);
        } else {
            obs.nontrivial(c, mk);
        }
    }
    obs.max("source-bytes", c.src.len() as u64);
    Verdict::Pass
}

/// atoms that build elements quickly
fn doc_atoms(ds: &str, de: &str) -> Vec<String> {
    let mut v = vec![
        format!("{ds}rm name='a'{de}"),
        format!("{ds}/rm{de}"),
        format!("{ds}rm name='a' unwrap-block{de}"),
        format!("{ds}tl to='2999-01-01 00:00:00'{de}"),
        format!("{ds} {de}"),
        "\n".to_string(),
        "x".to_string(),
        " ".to_string(),
        "é".to_string(),
        ds.to_string(),
    ];
    if de != ds {
        v.push(de.to_string());
    }
    v
}

fn all_opts() -> Opts {
    let mut o = Opts::base();
    let mut d: Vec<(&'static str, &'static str)> = REGULAR_DELIMS.to_vec();
    d.extend(HOSTILE_DELIMS.iter().copied());
    o.delims = d;
    o.inline = true;
    o.nested_unwrap = true;
    o.tags_on_wrappers = true;
    o.unwrap_tags_shared = true;
    o.blank_wrappers = true;
    o.first_line_empty_pct = 10;
    o.unwrap_pct = 50;
    o
}

fn gen_ast_case(t: &mut Tape) -> JunkCase {
    let o = all_opts();
    let (doc, sp) = astgen::gen_doc(t, &o);
    let acfg = astgen::gen_acfg(t);
    let r = astgen::render(&doc, &sp);
    let mut cfg = acfg.to_cfg(&sp);
    if t.chance(15) {
        cfg.offset = t.s(crate::refmodel::MALFORMED_OFFSET).to_string();
    }
    let mut src = r.src;
    if t.chance(10) {
        src = src.replace('\n', "\r\n");
    }
    if t.chance(10) {
        src.push_str(t.s(&["あ", "😀", "é"]));
    }
    JunkCase { src, cfg }
}

pub fn check(ctx: &mut Ctx) {
    ctx.rule = "cases = (source, delimiter pair, configuration); every case is pushed through clean, list (JSON, pretty) and list_all (JSON, pretty) built with overflow checks. Exhaustive: every string of <= L atoms over {ready tag, closing tag, unwrap-block tag, pending tag, blank tag, line break, 'x', space, multi-byte char, stray delimiters} for 24 delimiter pairs incl. hostile ones (space, line break, quote, letters as delimiters) under 3 offset strings; random: atom soups, AST documents (tags on wrapper lines, shared tag lines, nested unwrap, CRLF, appended multi-byte last character) and mutated AST documents under random times / offsets / target sets. Oracle: returns without panic, list* is Ok, JSON parses. Non-trivial = the reference tokenizer finds at least one tag.".into();
    ctx.assume("delimiters are non-empty");
    ctx.assume("nesting depth is bounded by the generated size (maxima reported); a process abort of the harness (e.g. stack overflow) is reported as inconclusive, not as a violation");
    for c in ["last-char-multibyte", "blank-tag-body", "has-unwrap-block-tag"] {
        ctx.require_class(c);
    }
    ctx.replay_corpus(replay);
    let budget = ctx.tier.pick(150_000u64, 2_000_000u64);
    let mut units = vec![];
    for (ds, de) in all_pairs(true) {
        let atoms = doc_atoms(ds, de);
        let l = bound_for(atoms.len(), budget);
        for first in 0..atoms.len() {
            units.push((ds.to_string(), de.to_string(), atoms.clone(), first, l));
        }
    }
    ctx.exhaustive("atom-documents", &format!("all strings of <= L element-building atoms with atoms^L <= {budget}, per delimiter pair (24 pairs), x 5 entry points"), units, |(ds, de, atoms, first, l), obs| {
        let mut fail = None;
        let mut cfg = Cfg::simple(ds, de);
        enumerate(atoms, *first, *l, &mut |s: &str| {
            cfg.offset = ["+00:00", "junk", ""][s.len() % 3].to_string();
            let case = JunkCase { src: s.to_string(), cfg: cfg.clone() };
            obs.eval();
            if oracle(&case, obs, true).is_fail() {
                let quiet = |src: &str| {
                    let mut st = Stats::new();
                    let mut o = Obs { st: &mut st, frozen: true };
                    oracle(&JunkCase { src: src.to_string(), cfg: case.cfg.clone() }, &mut o, true)
                };
                let min = minimize_text(&case.src, |s| quiet(s).is_fail());
                if let Verdict::Fail(m) = quiet(&min) {
                    fail = Some(fail_case("atom-documents", &JunkCase { src: min, cfg: case.cfg.clone() }, m));
                }
                return false;
            }
            true
        });
        fail
    });
    let mut soup_delims: Vec<(&'static str, &'static str)> = REGULAR_DELIMS.to_vec();
    soup_delims.extend(HOSTILE_DELIMS.iter().copied());
    ctx.random("junk-soup", 200, 250_000, 3_000_000, |t| junkgen::gen_soup(t, &soup_delims, true), |c, obs| oracle(c, obs, false));
    minimize_src_failure(ctx, "junk-soup");
    ctx.random("ast-documents", 400, 250_000, 3_000_000, gen_ast_case, |c, obs| oracle(c, obs, false));
    minimize_src_failure(ctx, "ast-documents");
    let mo = all_opts();
    ctx.random("mutated-ast", 400, 150_000, 2_000_000, |t| junkgen::gen_mutated(t, &mo), |c, obs| oracle(c, obs, false));
    minimize_src_failure(ctx, "mutated-ast");
    if ctx.tier == Tier::Thorough {
        let pairs = all_pairs(true);
        let mut seeds = vec![];
        for (i, t) in repo_seed_texts().iter().enumerate() {
            seeds.push(crate::fuzzglue::encode("total", if i % 2 == 0 { 3 } else { 1 }, 0x10, t));
        }
        for (i, (ds, de)) in pairs.iter().enumerate() {
            seeds.push(crate::fuzzglue::encode("total", i as u8, 0x10, &format!("x\n{ds}rm name='a' unwrap-block{de}\n{{ {ds}rm name='a'{de}\n y\n{ds}/rm{de} }}\n{ds}/rm{de}\né")));
        }
        ctx.fuzz_campaign("total", 250_000, 512, seeds, |data| crate::fuzzglue::fuzz_one("total", "C01", data));
        minimize_src_failure(ctx, "junk-soup");
    }
}

/// second shrinking pass over the source text of a failing JunkCase
fn minimize_src_failure(ctx: &mut Ctx, sub: &str) {
    let Some(f) = &ctx.failure else { return };
    if f.sub != sub || f.broken {
        return;
    }
    let Ok(case) = serde_json::from_value::<JunkCase>(f.case.clone()) else { return };
    let quiet = |src: &str| {
        let mut st = Stats::new();
        let mut o = Obs { st: &mut st, frozen: true };
        oracle(&JunkCase { src: src.to_string(), cfg: case.cfg.clone() }, &mut o, false)
    };
    if !quiet(&case.src).is_fail() {
        return;
    }
    let min = minimize_text(&case.src, |s| quiet(s).is_fail());
    if let Verdict::Fail(m) = quiet(&min) {
        let mc = JunkCase { src: min, cfg: case.cfg.clone() };
        ctx.failure = Some(Failure { broken: false, sub: sub.to_string(), case: serde_json::to_value(&mc).unwrap(), tape: None, message: m });
    }
}

pub fn replay(_sub: &str, case: &Value, obs: &mut Obs) -> Result<Verdict, String> {
    replay_case::<JunkCase, _>(case, obs, |c, obs| {
        obs.eval();
        oracle(c, obs, false)
    })
}
