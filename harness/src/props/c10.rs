//! C10: tags pair by name with stack discipline; stray tags are inert text.

use crate::engine::*;
use crate::refmodel::{ref_parse, Tag};
use crate::vfail;
use chiritori::parser::{self, ContentPart};
use chiritori::tokenizer::tokenize;
use serde::{Deserialize, Serialize};
use serde_json::{json, Value};

#[derive(Serialize, Deserialize, Clone, Hash, Debug)]
pub struct SeqCase {
    /// tag bodies (without delimiters) or text pieces; a piece starting with '\u{1}' is text
    pub pieces: Vec<String>,
    pub ds: String,
    pub de: String,
}

impl SeqCase {
    fn render(&self) -> String {
        let mut s = String::new();
        for p in &self.pieces {
            if let Some(t) = p.strip_prefix('\u{1}') {
                s.push_str(t);
            } else {
                s.push_str(&self.ds);
                s.push_str(p);
                s.push_str(&self.de);
            }
        }
        s
    }
}

type Pairs = Vec<(usize, usize, usize)>; // (open token byte start, close token byte start, depth)

fn flatten(parts: &[ContentPart], pairs: &mut Pairs, order: &mut Vec<usize>, names: &mut Vec<(String, String)>, depth: usize) {
    for p in parts {
        match p {
            ContentPart::Text(t) => order.push(t.token.byte_start),
            ContentPart::Element(e) => {
                order.push(e.start_token.byte_start);
                pairs.push((e.start_token.byte_start, e.end_token.byte_start, depth));
                names.push((e.start_element.name.to_string(), e.end_token.value.to_string()));
                flatten(&e.children, pairs, order, names, depth + 1);
                order.push(e.end_token.byte_start);
            }
        }
    }
}

pub fn oracle(c: &SeqCase, obs: &mut Obs, counted: bool) -> Verdict {
    let src = c.render();
    let got = std::panic::catch_unwind(|| {
        let toks = tokenize(&src, &c.ds, &c.de);
        let parts = parser::parse(&toks);
        let (mut pairs, mut order, mut names) = (vec![], vec![], vec![]);
        flatten(&parts, &mut pairs, &mut order, &mut names, 0);
        let starts: Vec<usize> = toks.iter().map(|t| t.byte_start).collect();
        (pairs, order, names, starts)
    });
    let (mut pairs, order, _names, starts) = match got {
        Ok(g) => g,
        Err(_) => vfail!("tokenize/parse panicked: {} on {:?}", last_panic(), src),
    };
    // reference: stack machine over the pieces
    let mut stack: Vec<(String, usize)> = vec![];
    let mut raw: Vec<(usize, usize)> = vec![];
    let mut exp_starts = vec![];
    let mut off = 0;
    let (mut crossing, mut stray, mut same_nest) = (false, false, false);
    let mut last_text = false;
    for p in &c.pieces {
        if let Some(t) = p.strip_prefix('\u{1}') {
            if !t.is_empty() {
                if !last_text {
                    exp_starts.push(off);
                }
                last_text = true;
                off += t.len();
            }
            continue;
        }
        last_text = false;
        exp_starts.push(off);
        match ref_parse(p) {
            Tag::NotATag | Tag::OutOfGrammar(_) => {}
            Tag::Ok { name, .. } => {
                if let Some(n) = name.strip_prefix('/') {
                    if let Some(i) = stack.iter().rposition(|(x, _)| x == n) {
                        if i + 1 < stack.len() {
                            crossing = true;
                        }
                        let (_, o) = stack[i].clone();
                        stack.truncate(i);
                        raw.push((o, off));
                    } else {
                        stray = true;
                        stack.push((name.clone(), off));
                    }
                } else {
                    if stack.iter().any(|(x, _)| *x == name) {
                        same_nest = true;
                    }
                    stack.push((name.clone(), off));
                }
            }
        }
        off += c.ds.len() + p.len() + c.de.len();
    }
    let mut exp: Pairs = raw.iter().map(|&(o, cl)| (o, cl, raw.iter().filter(|&&(o2, c2)| o2 < o && c2 > cl).count())).collect();
    exp.sort();
    pairs.sort();
    if starts != exp_starts {
        vfail!("token starts {:?} differ from the generated pieces {:?} for {:?}", starts, exp_starts, src);
    }
    if pairs != exp {
        vfail!("pairs (open byte, close byte, depth) {:?}, stack model gives {:?} for {:?}", pairs, exp, src);
    }
    if order != starts {
        vfail!("tree lists token starts {:?}, document order is {:?} for {:?}", order, starts, src);
    }
    if crossing || stray || same_nest {
        if crossing {
            obs.class("crossing");
        }
        if stray {
            obs.class("stray-closer");
        }
        if same_nest {
            obs.class("same-name-nesting");
        }
        if !stack.is_empty() {
            obs.class("unclosed-opener");
        }
        let mk = || json!({"src": src, "pairs": exp});
        if counted {
            obs.nontrivial_counted(mk);
        } else {
            obs.nontrivial(c, mk);
        }
    }
    Verdict::Pass
}

const ATOMS: &[&str] = &["a", "b", "/a", "/b", "/z", "\u{1}t", "a x='1'"];
const ATOMS3: &[&str] = &["é", "期限", "/é", "/期限", "😀", "/😀", "\u{1}t", "é x='1'"];
const ATOMS2: &[&str] = &["a", "b", "/a c='end of a'", "/b\n * ", "/a", "\u{1}t", " /b "];

fn gen_long(t: &mut Tape) -> SeqCase {
    let pairs = [("<", ">"), ("<!-- <", "> -->"), ("[[", "]]"), ("「", "」")];
    let (ds, de) = *t.pick(&pairs);
    let n = 9 + t.below(40);
    let names = ["a", "b", "c", "tl", "é", "期限", "😀x", "a-é"];
    let mut pieces = vec![];
    for _ in 0..n {
        let nm = t.s(&names);
        pieces.push(match t.below(12) {
            0..=3 => format!("{}{}{}", if t.chance(15) { " " } else { "" }, nm, t.s(&["", "", " x='1'", " skip", " to=\"2020-01-01 00:00:00\" unwrap-block", "\nname='a'"])),
            4..=7 => format!("/{}{}", nm, t.s(&["", "", "", " ", " c='end'", "\n * ", " x=\"1\" y"])),
            8 => "/zz".to_string(),
            9 => t.s(&[" ", "='x'", "\"q\"", "  "]).to_string(),
            _ => format!("\u{1}{}", t.s(&["t", " ", "\n", "x y", "é"])),
        });
    }
    SeqCase { pieces, ds: ds.into(), de: de.into() }
}

fn run_exhaustive(ctx: &mut Ctx, sub: &'static str, atoms: &'static [&'static str], l: usize) {
    // units: first two atoms
    let mut units = vec![];
    for a in 0..atoms.len() {
        for b in 0..atoms.len() {
            units.push((a, b));
        }
    }
    let total: u64 = (0..=l as u32).map(|k| (atoms.len() as u64).pow(k)).sum();
    ctx.exhaustive(sub, &format!("all {total} sequences of length <= {l} over the {} atoms {:?}, delimiters '<' '>'", atoms.len(), atoms), units, move |&(a, b), obs| {
        let mut fail = None;
        let mut idx: Vec<usize> = vec![a, b];
        // sequences of length 0 and 1 are covered by unit (0,0) additionally
        let mut run = |idx: &[usize], obs: &mut Obs| -> bool {
            let c = SeqCase { pieces: idx.iter().map(|&i| atoms[i].to_string()).collect(), ds: "<".into(), de: ">".into() };
            obs.eval();
            if oracle(&c, obs, true).is_fail() {
                let quiet = |pieces: &[String]| {
                    let mut st = Stats::new();
                    let mut o = Obs { st: &mut st, frozen: true };
                    oracle(&SeqCase { pieces: pieces.to_vec(), ds: "<".into(), de: ">".into() }, &mut o, true)
                };
                let min = minimize_vec(&c.pieces, |p| quiet(p).is_fail());
                if let Verdict::Fail(m) = quiet(&min) {
                    fail = Some(fail_case(sub, &SeqCase { pieces: min, ds: "<".into(), de: ">".into() }, m));
                }
                return false;
            }
            true
        };
        if a == 0 && b == 0 {
            if !run(&[], obs) {
                return fail;
            }
            for i in 0..atoms.len() {
                if !run(&[i], obs) {
                    return fail;
                }
            }
        }
        fn rec(idx: &mut Vec<usize>, l: usize, n_atoms: usize, obs: &mut Obs, run: &mut dyn FnMut(&[usize], &mut Obs) -> bool) -> bool {
            if !run(idx, obs) {
                return false;
            }
            if idx.len() == l {
                return true;
            }
            for i in 0..n_atoms {
                idx.push(i);
                let ok = rec(idx, l, n_atoms, obs, run);
                idx.pop();
                if !ok {
                    return false;
                }
            }
            true
        }
        rec(&mut idx, l, atoms.len(), obs, &mut run);
        fail
    });
}

pub fn check(ctx: &mut Ctx) {
    ctx.rule = "cases = sequences of tag bodies / text pieces rendered with a delimiter pair. Exhaustive: every sequence of length <= L over {open a, open b, close a, close b, close z (unknown), text, open a with an attribute}; random: 9..48 pieces over 4 names, attributes, blank / unparsable tags, 4 delimiter pairs. Oracle: (open,close,depth) pairs and document order from parser::parse == reference stack machine. Non-trivial = the sequence contains a crossing, a same-name nesting or a stray closer.".into();
    ctx.assume("tokenization is exercised separately (C07/C08); here token starts are additionally compared with the generated pieces");
    for c in ["crossing", "stray-closer", "same-name-nesting", "unclosed-opener"] {
        ctx.require_class(c);
    }
    ctx.replay_corpus(replay);
    let l = ctx.tier.pick(8usize, 9usize);
    run_exhaustive(ctx, "sequences", ATOMS, l);
    // closing tags that carry attribute-like content (the comment attribute, the README's multi-line layout): they close all the same
    let l2 = ctx.tier.pick(7usize, 8usize);
    run_exhaustive(ctx, "closers-with-attributes", ATOMS2, l2);
    // tag names that are not ASCII (lengths in bytes and in characters differ)
    run_exhaustive(ctx, "non-ascii-names", ATOMS3, ctx.tier.pick(6usize, 7usize));
    ctx.random("long-sequences", 160, 600_000, 30_000_000, gen_long, |c, obs| oracle(c, obs, false));
    // many simultaneously open tags (never closed, stray closers, properly nested) in front of / around a well-formed pair:
    // the pair must still be recognised (up to the depth that known finding KF4 of C01 leaves: 2 400 here)
    let mut deep: Vec<SeqCase> = vec![];
    for k in [10usize, 33, 100, 513, 1025, 2400] {
        let mk = |pieces: Vec<String>| SeqCase { pieces, ds: "<".into(), de: ">".into() };
        let pair = || vec!["b".to_string(), "\u{1}keep".to_string(), "/b".to_string()];
        // k never-closed openers, then a pair
        deep.push(mk(std::iter::repeat("a".to_string()).take(k).chain(pair()).collect()));
        // k stray closers, then a pair
        deep.push(mk(std::iter::repeat("/z".to_string()).take(k).chain(pair()).collect()));
        // a pair nested k deep in properly closed elements of alternating names
        let mut v: Vec<String> = (0..k).map(|i| if i % 2 == 0 { "a".to_string() } else { "c x='1'".to_string() }).collect();
        v.extend(pair());
        v.extend((0..k).rev().map(|i| if i % 2 == 0 { "/a".to_string() } else { "/c".to_string() }));
        deep.push(mk(v));
        // same-name nesting k deep: every closer closes the innermost
        let mut w: Vec<String> = std::iter::repeat("a".to_string()).take(k).collect();
        w.extend(pair());
        w.extend(std::iter::repeat("/a".to_string()).take(k / 2));
        deep.push(mk(w));
    }
    let n = deep.len();
    ctx.exhaustive("deep-sequences", &format!("{n} sequences with 10..2400 simultaneously open tags (never closed / stray closers / nested / same-name) around a well-formed pair"), deep.into_iter().map(|c| vec![c]).collect(), |cs, obs| {
        for c in cs {
            obs.eval();
            if let Verdict::Fail(m) = oracle(c, obs, true) {
                let small = SeqCase { pieces: vec![format!("({} pieces, first: {:?}, last: {:?})", c.pieces.len(), c.pieces.first(), c.pieces.last())], ds: c.ds.clone(), de: c.de.clone() };
                return Some(fail_case("deep-sequences", &small, truncate(&m, 600)));
            }
            obs.max("open-tags", c.pieces.len() as u64);
        }
        None
    });
}

pub fn replay(_sub: &str, case: &Value, obs: &mut Obs) -> Result<Verdict, String> {
    replay_case::<SeqCase, _>(case, obs, |c, obs| {
        obs.eval();
        oracle(c, obs, false)
    })
}
