//! C06: marker decision = exact, case-sensitive set membership; skip always wins; other tag names never ready.

use crate::cli::{cli_available, run_cli};
use crate::engine::*;
use crate::util::*;
use crate::vfail;
use serde::{Deserialize, Serialize};
use serde_json::{json, Value};

#[derive(Serialize, Deserialize, Clone, Hash, Debug)]
pub struct ProbeCase {
    pub src: String,
    pub cfg: Cfg,
    pub expect_out: String,
    pub why: String,
}

pub fn oracle(c: &ProbeCase, obs: &mut Obs, nontrivial: bool, counted: bool) -> Verdict {
    let out = match call_clean(&c.src, &c.cfg) {
        Ok(o) => o,
        Err(p) => vfail!("clean panicked: {p} on {:?}", c.src),
    };
    if out != c.expect_out {
        vfail!("{}: clean({:?}) with targets {:?}, tag names ({:?}, {:?}) gave {:?}, expected {:?}", c.why, c.src, c.cfg.targets, c.cfg.tl_tag, c.cfg.rm_tag, out, c.expect_out);
    }
    // the listing must agree with the decision
    match call_list(&c.src, &c.cfg, false, true).and_then(|js| parse_items(&js)) {
        Ok(items) => {
            if items.is_empty() != (c.expect_out == c.src) {
                vfail!("{}: list reports {} item(s) for {:?} although clean {} it", c.why, items.len(), c.src, if c.expect_out == c.src { "keeps" } else { "changes" });
            }
        }
        Err(e) => vfail!("list failed: {e} on {:?}", c.src),
    }
    if nontrivial {
        let mk = || json!({"src": c.src, "targets": c.cfg.targets, "tag_names": [c.cfg.tl_tag, c.cfg.rm_tag], "expect": c.expect_out, "class": c.why});
        if counted {
            obs.nontrivial_counted(mk);
        } else {
            obs.nontrivial(c, mk);
        }
    }
    Verdict::Pass
}

pub const NAME_POOL: &[&str] = &["o'brien", "o", "", "a", "A", "ab", "a ", " a", "b", "feature1", "Feature1", "feature10", "feature", "vec![]", "[]", "skip", "ａ", "a\u{301}"];

fn base_cfg(targets: &[&str]) -> Cfg {
    let mut c = Cfg::simple("<", ">");
    c.targets = targets.iter().map(|s| s.to_string()).collect();
    c
}

fn near_miss(q: &str, set: &[&str]) -> bool {
    set.iter().any(|t| *t != q && (t.starts_with(q) || q.starts_with(t) || t.eq_ignore_ascii_case(q) || t.trim() == q.trim()))
}

fn subsets(pool: &[&'static str], max: usize) -> Vec<Vec<&'static str>> {
    let n = pool.len();
    let mut out = vec![vec![]];
    for i in 0..n {
        out.push(vec![pool[i]]);
        if max >= 2 {
            for j in i + 1..n {
                out.push(vec![pool[i], pool[j]]);
                if max >= 3 {
                    for k in j + 1..n {
                        out.push(vec![pool[i], pool[j], pool[k]]);
                        if max >= 4 {
                            for l in k + 1..n {
                                out.push(vec![pool[i], pool[j], pool[k], pool[l]]);
                            }
                        }
                    }
                }
            }
        }
    }
    out
}

fn skip_cases() -> Vec<ProbeCase> {
    let mut v = vec![];
    let cfg = {
        let mut c = base_cfg(&["a", "skip"]);
        c.now = epoch(2024, 6, 1, 0, 0, 0);
        c
    };
    let conds = [("rm", "name='a'"), ("tl", "to='2000-01-01 00:00:00'"), ("rm", "name=\"skip\"")];
    let others = ["c='1'", "unwrap-block", "foo", "data-x=\"y z\""];
    let skips = ["skip", "skip='x'", "skip=\"\"", "skip = 'no'"];
    for (tag, cond) in conds {
        // attribute lists of 1..3 attributes with the condition somewhere; skip inserted at every position
        let lists: Vec<Vec<&str>> = vec![vec![cond], vec![cond, others[0]], vec![others[2], cond], vec![others[0], cond, others[3]], vec![cond, others[2], others[0]]];
        for l in &lists {
            // control: no skip => removed
            let body = l.join(" ");
            v.push(ProbeCase { src: format!("A<{tag} {body}>X</{tag}>B"), cfg: cfg.clone(), expect_out: "AB".into(), why: "control without skip: removed".into() });
            for sk in skips {
                for pos in 0..=l.len() {
                    let mut l2: Vec<&str> = l.clone();
                    l2.insert(pos, sk);
                    for sep in [" ", "\n", "  "] {
                        let body = l2.join(sep);
                        let src = format!("A<{tag} {body}>X</{tag}>B");
                        v.push(ProbeCase { expect_out: src.clone(), src, cfg: cfg.clone(), why: format!("skip attribute at position {pos}: never removed") });
                    }
                }
            }
            // the word inside quoted values has no effect
            for inert in ["c='skip'", "c=\"skip\"", "data-x='a skip b'", "c=' skip '", "c='skip=1'", "note=\"don't skip this one\"", "c='say \"no\" skip now'", "c=\"it's skip\""] {
                for pos in 0..=l.len() {
                    let mut l2: Vec<&str> = l.clone();
                    l2.insert(pos, inert);
                    let body = l2.join(" ");
                    v.push(ProbeCase { src: format!("A<{tag} {body}>X</{tag}>B"), cfg: cfg.clone(), expect_out: "AB".into(), why: "the word skip inside a quoted value has no effect: removed".into() });
                }
            }
        }
    }
    // skip together with unwrap-block on an element that could be unwrapped
    for attrs in ["name='a' skip unwrap-block", "name='a' unwrap-block skip", "skip unwrap-block name='a'", "unwrap-block name='a'\nskip"] {
        let src = format!("A\n<rm {attrs}>\nif (x) {{\n  X\n}}\n</rm>\nB\n");
        v.push(ProbeCase { expect_out: src.clone(), src, cfg: cfg.clone(), why: "skip together with unwrap-block: never unwrapped".into() });
    }
    v.push(ProbeCase { src: "A\n<rm name='a' unwrap-block>\nif (x) {\n  X\n}\n</rm>\nB\n".into(), cfg: cfg.clone(), expect_out: "A\nX\nB\n".into(), why: "control: unwrap-block without skip is unwrapped".into() });
    // skip protects only the element itself, not a ready child
    v.push(ProbeCase { src: "A<rm name='a' skip>B<rm name='a'>X</rm>C</rm>D".into(), cfg: cfg.clone(), expect_out: "A<rm name='a' skip>BC</rm>D".into(), why: "skip on the parent does not protect a ready child".into() });
    v.push(ProbeCase { src: "A<rm name='a'>B<rm name='a' skip>X</rm>C</rm>D".into(), cfg: cfg.clone(), expect_out: "AD".into(), why: "a skip child inside a ready parent goes with the parent".into() });
    v
}

fn tagname_cases() -> Vec<ProbeCase> {
    let mut v = vec![];
    let confs = [("tl", "rm"), ("time-limited", "removal-marker"), ("rm", "tl"), ("a", "b"), ("期限", "目印"), ("t-l", "r.m")];
    for (tl, rm) in confs {
        let mut cfg = base_cfg(&["a"]);
        cfg.tl_tag = tl.into();
        cfg.rm_tag = rm.into();
        cfg.now = epoch(2024, 6, 1, 0, 0, 0);
        // the configured names work
        v.push(ProbeCase { src: format!("A<{rm} name='a'>X</{rm}>B"), cfg: cfg.clone(), expect_out: "AB".into(), why: "control: configured marker name".into() });
        v.push(ProbeCase { src: format!("A<{tl} to='2000-01-01 00:00:00'>X</{tl}>B"), cfg: cfg.clone(), expect_out: "AB".into(), why: "control: configured time-limited name".into() });
        // the marker tag does not evaluate `to`, the time-limited tag does not evaluate `name`
        let s = format!("A<{rm} to='2000-01-01 00:00:00'>X</{rm}>B");
        v.push(ProbeCase { expect_out: s.clone(), src: s, cfg: cfg.clone(), why: "marker element without name (only `to`)".into() });
        let s = format!("A<{tl} name='a'>X</{tl}>B");
        v.push(ProbeCase { expect_out: s.clone(), src: s, cfg: cfg.clone(), why: "time-limited element without `to` (only name)".into() });
        // other names: prefixes, superstrings, case variants, defaults when not configured
        let mut others: Vec<String> = vec![format!("{rm}x"), format!("x{rm}"), rm.to_uppercase(), format!("{tl}2"), tl.to_uppercase(), "zz".into(), "marker".into()];
        for d in ["time-limited", "removal-marker", "tl", "rm"] {
            if d != tl && d != rm {
                others.push(d.to_string());
            }
        }
        if rm.chars().count() > 1 {
            others.push(rm.chars().take(rm.chars().count() - 1).collect());
        }
        for o in others {
            if o == tl || o == rm || o.is_empty() {
                continue;
            }
            let s = format!("A<{o} name='a' to='2000-01-01 00:00:00'>X</{o}>B");
            v.push(ProbeCase { expect_out: s.clone(), src: s, cfg: cfg.clone(), why: format!("tag name {o:?} is not one of the configured names") });
        }
    }
    v
}

pub fn check(ctx: &mut Ctx) {
    ctx.rule = "cases = probe documents `A<tag attrs>X</tag>B` with a configuration and the exact expected output. Exhaustive: all target sets of size <= 3 (thorough: <= 4) over a 16-name pool (prefixes / superstrings / case variants / padded / empty / option-default strings / look-alikes) x every probed value x both quote kinds, bare and missing name; skip at every attribute position in 4 spellings x 3 separators, the word skip inside quoted values; 6 tag-name configurations x look-alike tag names. CLI: no target option / repeated target options incl. every [default: ...] string of --help. Non-trivial = target set non-empty and the probed value is a near miss of a member, or a skip is involved, or a look-alike tag name.".into();
    ctx.assume("duplicate name attributes are unspecified and never generated");
    ctx.replay_corpus(replay);
    let sets = subsets(NAME_POOL, ctx.tier.pick(3, 4));
    let n_sets = sets.len();
    // units: chunks of target sets
    let chunks: Vec<Vec<Vec<&'static str>>> = sets.chunks(40).map(|c| c.to_vec()).collect();
    ctx.exhaustive("membership", &format!("{n_sets} target sets (all subsets of size <= 3 of {} names) x {} probed values x 2 quote kinds + bare/missing name", NAME_POOL.len(), NAME_POOL.len()), chunks, |chunk, obs| {
        for set in chunk {
            let cfg = base_cfg(set);
            for q in NAME_POOL {
                for quote in ['\'', '"'] {
                    if q.contains(quote) {
                        continue;
                    }
                    let src = format!("A<rm name={quote}{q}{quote}>X</rm>B");
                    let member = set.contains(q);
                    let c = ProbeCase { expect_out: if member { "AB".into() } else { src.clone() }, src, cfg: cfg.clone(), why: format!("name {q:?} {} the target set", if member { "is a member of" } else { "is not in" }) };
                    obs.eval();
                    let nt = !set.is_empty() && (near_miss(q, set) || member);
                    if let Verdict::Fail(m) = oracle(&c, obs, nt, true) {
                        return Some(fail_case("membership", &c, m));
                    }
                }
            }
            for attrs in ["name", "", "nam='a'", "NAME='a'", "name ", "c='a'"] {
                let src = format!("A<rm {attrs}>X</rm>B");
                let c = ProbeCase { expect_out: src.clone(), src, cfg: cfg.clone(), why: "no name attribute with a value".into() };
                obs.eval();
                if let Verdict::Fail(m) = oracle(&c, obs, !set.is_empty(), true) {
                    return Some(fail_case("membership", &c, m));
                }
            }
        }
        None
    });
    let sk = skip_cases();
    let n = sk.len();
    ctx.exhaustive("skip", &format!("{n} probes: skip attribute at every position / spelling / separator, and the word skip inside quoted values"), vec![sk], |cases, obs| {
        for c in cases {
            obs.eval();
            if let Verdict::Fail(m) = oracle(c, obs, true, true) {
                return Some(fail_case("skip", c, m));
            }
        }
        None
    });
    let tn = tagname_cases();
    let n = tn.len();
    ctx.exhaustive("tag-names", &format!("{n} probes over 6 tag-name configurations and look-alike element names"), vec![tn], |cases, obs| {
        for c in cases {
            obs.eval();
            if let Verdict::Fail(m) = oracle(c, obs, true, true) {
                return Some(fail_case("tag-names", c, m));
            }
        }
        None
    });
    // several elements in one document whose attribute VALUES are permutations of each other under different names: the
    // decision of one element must not leak into the next (a cache keyed too coarsely)
    {
        let variants: Vec<(&str, Option<&str>, bool)> = vec![
            ("name=\"alpha\" c=\"beta\"", Some("alpha"), false),
            ("c=\"alpha\" name=\"beta\"", Some("beta"), false),
            ("c=\"alpha\"", None, false),
            ("name=\"beta\" c=\"alpha\"", Some("beta"), false),
            ("name=\"alpha\"", Some("alpha"), false),
            ("name=\"beta\" skip", Some("beta"), true),
            ("c=\"beta\" name=\"alpha\" d=\"alpha\"", Some("alpha"), false),
        ];
        let mut docs: Vec<(String, Vec<&'static str>, String)> = vec![];
        let sets: Vec<Vec<&'static str>> = vec![vec![], vec!["alpha"], vec!["beta"], vec!["alpha", "beta"]];
        let nv = variants.len();
        for set in &sets {
            for a in 0..nv {
                for b in 0..nv {
                    for c3 in (0..nv).map(Some).chain([None]) {
                        let idx: Vec<usize> = [Some(a), Some(b), c3].iter().flatten().copied().collect();
                        let (mut src, mut exp) = (String::from("s|"), String::from("s|"));
                        for (k, i) in idx.iter().enumerate() {
                            let (attrs, name, skip) = variants[*i];
                            let el = format!("<rm {attrs}>X{k}</rm>");
                            src.push_str(&el);
                            src.push('|');
                            let removed = !skip && name.map(|n| set.contains(&n)).unwrap_or(false);
                            if !removed {
                                exp.push_str(&el);
                            }
                            exp.push('|');
                        }
                        docs.push((src, set.clone(), exp));
                    }
                }
            }
        }
        let n = docs.len();
        let chunks: Vec<Vec<(String, Vec<&'static str>, String)>> = docs.chunks(200).map(|c| c.to_vec()).collect();
        ctx.exhaustive("several-elements", &format!("{n} documents with 2-3 marker elements whose attribute values are permutations of each other (same values under different attribute names, with / without skip) x 4 target sets"), chunks, |chunk, obs| {
            for (src, set, exp) in chunk {
                let c = ProbeCase { src: src.clone(), cfg: base_cfg(set), expect_out: exp.clone(), why: "every element is decided by its own name attribute".into() };
                obs.eval();
                if let Verdict::Fail(m) = oracle(&c, obs, !set.is_empty(), true) {
                    return Some(fail_case("several-elements", &c, m));
                }
            }
            None
        });
    }
    cli_defaults(ctx);
}

/// strings shown as `[default: …]` by --help
pub fn help_defaults() -> Result<Vec<String>, String> {
    let out = run_cli(&["--help".to_string()], None, &[], None)?;
    let text = String::from_utf8_lossy(&out.stdout).to_string();
    let mut v = vec![];
    let mut rest = text.as_str();
    while let Some(p) = rest.find("[default: ") {
        let r = &rest[p + 10..];
        // the value ends at the last ']' of the line
        let line_end = r.find('\n').unwrap_or(r.len());
        let line = &r[..line_end];
        if let Some(e) = line.rfind(']') {
            v.push(line[..e].to_string());
        }
        rest = &r[line_end..];
    }
    Ok(v)
}

fn cli_defaults(ctx: &mut Ctx) {
    if ctx.failed() {
        return;
    }
    if !cli_available() {
        ctx.inconclusive = Some("chiritori binary not built (bin/build cli)".into());
        return;
    }
    let defaults = match help_defaults() {
        Ok(d) => d,
        Err(e) => {
            ctx.inconclusive = Some(e);
            return;
        }
    };
    let mut probes: Vec<String> = NAME_POOL.iter().map(|s| s.to_string()).collect();
    for d in &defaults {
        probes.push(d.clone());
        probes.push(d.trim_matches('"').to_string());
    }
    probes.extend(["vec![]", "[]", "Vec::new()", "None", "null", "default", "*", "removal-marker", "a,b", "feature1,feature10", "a;b", "o:o"].iter().map(|s| s.to_string()));
    probes.sort();
    probes.dedup();
    let mut n = 0u64;
    // (1) no target option: nothing is removed, whatever the name
    for q in &probes {
        if q.contains('"') {
            continue;
        }
        let src = format!("a<!-- <removal-marker name=\"{q}\"> -->X<!-- </removal-marker> -->b");
        for extra in [vec![], vec!["--list".to_string(), "--list-json".to_string()]] {
            let out = match run_cli(&extra, Some(src.as_bytes()), &[], None) {
                Ok(o) => o,
                Err(e) => {
                    ctx.inconclusive = Some(e);
                    return;
                }
            };
            n += 1;
            let text = String::from_utf8_lossy(&out.stdout).to_string();
            let ok = out.status == 0 && if extra.is_empty() { text == src } else { matches!(serde_json::from_str::<Value>(&text), Ok(Value::Array(a)) if a.is_empty()) };
            if !ok {
                ctx.failure = Some(Failure { broken: false, sub: "cli-no-target".into(), case: json!({"args": extra, "stdin": src, "expect_stdout": if extra.is_empty() { src.clone() } else { "[]".to_string() }}), tape: None, message: format!("chiritori {:?} without any target option on {:?}: exit {} output {:?}; with an empty target set no removal-marker may be removed or listed (defaults shown by --help: {:?})", extra, src, out.status, text, defaults) });
                return;
            }
        }
    }
    // (2) repeated target options: exact membership
    let sets: Vec<Vec<&str>> = vec![vec!["a"], vec!["a", "feature1"], vec!["A", "ab", ""], vec!["vec![]"], vec!["feature10", "a "], vec!["a,b"], vec!["feature1,feature10", "b"], vec!["a;b", "o:o"]];
    for set in &sets {
        let args: Vec<String> = set.iter().map(|t| format!("--removal-marker-target-name={t}")).collect();
        for q in &probes {
            if q.contains('"') {
                continue;
            }
            let src = format!("a<!-- <removal-marker name=\"{q}\"> -->X<!-- </removal-marker> -->b");
            let out = match run_cli(&args, Some(src.as_bytes()), &[], None) {
                Ok(o) => o,
                Err(e) => {
                    ctx.inconclusive = Some(e);
                    return;
                }
            };
            n += 1;
            let text = String::from_utf8_lossy(&out.stdout).to_string();
            let expect = if set.contains(&q.as_str()) { "ab".to_string() } else { src.clone() };
            if out.status != 0 || text != expect {
                ctx.failure = Some(Failure { broken: false, sub: "cli-targets".into(), case: json!({"args": args, "stdin": src, "expect_stdout": expect}), tape: None, message: format!("chiritori {:?} on {:?}: exit {} output {:?}, expected {:?}", args, src, out.status, text, expect) });
                return;
            }
        }
    }
    // (3) the target set given by a config file (one name per line): every line counts, with LF or CRLF line ends, with or
    // without a final line break, alone or next to a flag
    let dir = std::path::PathBuf::from(format!("{}/.build/tmp/c06-{}", crate::engine::verif_dir(), std::process::id()));
    let _ = std::fs::create_dir_all(&dir);
    let file_sets: Vec<Vec<&str>> = vec![vec!["a"], vec!["feature1", "a"], vec!["ab", "A", "feature10"], vec!["feature1", "", "a"], vec!["", "ab"]];
    'files: for (si, set) in file_sets.iter().enumerate() {
        for (li, (eol, last)) in [("\n", true), ("\n", false), ("\r\n", true), ("\r\n", false)].iter().enumerate() {
            let mut text = set.join(eol);
            if *last {
                text.push_str(eol);
            }
            let path = dir.join(format!("targets-{si}-{li}.txt"));
            if std::fs::write(&path, &text).is_err() {
                ctx.inconclusive = Some("cannot write a scratch target file".into());
                break 'files;
            }
            for with_flag in [false, true] {
                let mut args = vec![format!("--removal-marker-target-config={}", path.display())];
                if with_flag {
                    args.push("--removal-marker-target-name=zz9".to_string());
                }
                for q in probes.iter().map(|q| q.as_str()).chain(["zz9", "zz"]).filter(|q| !q.contains('"')) {
                    let src = format!("a<!-- <removal-marker name=\"{q}\"> -->X<!-- </removal-marker> -->b");
                    let out = match run_cli(&args, Some(src.as_bytes()), &[], None) {
                        Ok(o) => o,
                        Err(e) => {
                            ctx.inconclusive = Some(e);
                            break 'files;
                        }
                    };
                    n += 1;
                    let text_out = String::from_utf8_lossy(&out.stdout).to_string();
                    let member = set.contains(&q) || (with_flag && q == "zz9");
                    let expect = if member { "ab".to_string() } else { src.clone() };
                    if out.status != 0 || text_out != expect {
                        ctx.failure = Some(Failure { broken: false, sub: "cli-target-file".into(), case: json!({"file_text": text, "flag": with_flag, "stdin": src, "expect_stdout": expect}), tape: None, message: format!("chiritori with the target file {:?}{} on {:?}: exit {} output {:?}, expected {:?}", text, if with_flag { " and --removal-marker-target-name=zz9" } else { "" }, src, out.status, text_out, expect) });
                        break 'files;
                    }
                }
            }
        }
    }
    let _ = std::fs::remove_dir_all(&dir);
    if ctx.failed() || ctx.inconclusive.is_some() {
        return;
    }
    ctx.stats.evaluations += n;
    ctx.stats.counted += n;
    ctx.subs_run.push(json!({"sub": "cli", "process_runs": n, "help_defaults": defaults}));
}

pub fn replay(sub: &str, case: &Value, obs: &mut Obs) -> Result<Verdict, String> {
    match sub {
        "cli-no-target" | "cli-targets" => {
            let args: Vec<String> = serde_json::from_value(case["args"].clone()).map_err(|e| e.to_string())?;
            let stdin = case["stdin"].as_str().unwrap_or("").to_string();
            let expect = case["expect_stdout"].as_str().unwrap_or("").to_string();
            let out = run_cli(&args, Some(stdin.as_bytes()), &[], None)?;
            let text = String::from_utf8_lossy(&out.stdout).to_string();
            let same = if expect.trim() == "[]" { matches!(serde_json::from_str::<Value>(&text), Ok(Value::Array(a)) if a.is_empty()) } else { text == expect };
            if out.status != 0 || !same {
                Ok(Verdict::Fail(format!("chiritori {args:?} on {stdin:?}: exit {} output {text:?}, expected {expect:?}", out.status)))
            } else {
                Ok(Verdict::Pass)
            }
        }
        "cli-target-file" => {
            let text = case["file_text"].as_str().unwrap_or("").to_string();
            let stdin = case["stdin"].as_str().unwrap_or("").to_string();
            let expect = case["expect_stdout"].as_str().unwrap_or("").to_string();
            let dir = std::path::PathBuf::from(format!("{}/.build/tmp/c06-replay-{}", crate::engine::verif_dir(), std::process::id()));
            std::fs::create_dir_all(&dir).map_err(|e| e.to_string())?;
            let path = dir.join("targets.txt");
            std::fs::write(&path, &text).map_err(|e| e.to_string())?;
            let mut args = vec![format!("--removal-marker-target-config={}", path.display())];
            if case["flag"].as_bool().unwrap_or(false) {
                args.push("--removal-marker-target-name=zz9".to_string());
            }
            let out = run_cli(&args, Some(stdin.as_bytes()), &[], None);
            let _ = std::fs::remove_dir_all(&dir);
            let out = out?;
            let got = String::from_utf8_lossy(&out.stdout).to_string();
            if out.status != 0 || got != expect {
                Ok(Verdict::Fail(format!("chiritori with the target file {text:?} on {stdin:?}: exit {} output {got:?}, expected {expect:?}", out.status)))
            } else {
                Ok(Verdict::Pass)
            }
        }
        _ => replay_case::<ProbeCase, _>(case, obs, |c, obs| {
            obs.eval();
            oracle(c, obs, true, false)
        }),
    }
}
