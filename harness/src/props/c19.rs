//! C19: cleaning is idempotent and composes over time (stateful: histories of cleaning steps).

use crate::astgen::{self, ACfg, Doc, Opts, Spell};
use crate::engine::*;
use crate::refmodel::ref_tags;
use crate::util::*;
use crate::vfail;
use serde::{Deserialize, Serialize};
use serde_json::{json, Value};

#[derive(Serialize, Deserialize, Clone, Hash, Debug)]
pub struct HistoryCase {
    pub doc: Doc,
    pub spell: Spell,
    /// non-decreasing chain of configurations (time index never decreases, target set only grows)
    pub chain: Vec<ACfg>,
}

fn opts() -> Opts {
    let mut o = Opts::base();
    o.delims = vec![("<", ">"), ("<!-- <", "> -->"), ("/* <", "> */"), ("[[", "]]"), ("「", "」"), ("|", "|")];
    o.inline = true;
    o.nested_unwrap = true;
    // tags on wrapper lines and blank wrapper lines are generated; they are known finding KF3 (excluded by
    // signature while it is listed)
    o.tags_on_wrappers = true;
    o.blank_wrappers = true;
    // tags of unwrap-blocks may share their line with code or with other tags (the latter is known finding KF8)
    o.unwrap_tags_shared = true;
    o.wrapper_tag_pct = 5;
    o.blank_wrapper_pct = 4;
    o.straddle_pct = 2;
    o.first_line_empty_pct = 5;
    o.join_pct = 6;
    o.multiline_tag_pct = 10;
    o.close_attr_pct = 8;
    o.bom_pct = 3;
    o
}

pub fn gen(t: &mut Tape) -> HistoryCase {
    let o = opts();
    let (doc, spell) = astgen::gen_doc(t, &o);
    let len = 1 + t.below(4);
    let mut chain = vec![];
    let mut cur = ACfg { now_idx: t.below(3), targets: [0u8, 1, 2, 4][t.below(4)] };
    chain.push(cur.clone());
    for _ in 1..len {
        match t.below(3) {
            0 => cur.now_idx = (cur.now_idx + 1 + t.below(2)).min(4),
            1 => cur.targets |= 1 << t.below(3),
            _ => {
                cur.now_idx = (cur.now_idx + 1).min(4);
                cur.targets |= 1 << t.below(3);
            }
        }
        chain.push(cur.clone());
    }
    let mut doc = doc;
    if t.chance(10) {
        plant_joined_delimiter(&mut doc.nodes, &spell.ds, t);
    }
    HistoryCase { doc, spell, chain }
}

/// Give one inline element a text before it that ends with the beginning of the start delimiter and a text behind it
/// that begins with the rest: the source still has delimiter strings only in tags, the text after removal has one more.
fn plant_joined_delimiter(nodes: &mut [astgen::Node], ds: &str, t: &mut Tape) -> bool {
    let cuts: Vec<usize> = (1..ds.len()).filter(|k| ds.is_char_boundary(*k)).collect();
    if cuts.is_empty() {
        return false;
    }
    for n in nodes.iter_mut() {
        match n {
            astgen::Node::Inline { pre, post, .. } => {
                if t.chance(50) {
                    let k = cuts[t.below(cuts.len())];
                    pre.push_str(&ds[..k]);
                    *post = format!("{}x{}", &ds[k..], post);
                    return true;
                }
            }
            astgen::Node::Block { kids, .. } => {
                if plant_joined_delimiter(kids, ds, t) {
                    return true;
                }
            }
            _ => {}
        }
    }
    false
}

/// KF8 signature: a tag of another element stands on the line of an unwrap-block's own opening or closing tag.
pub fn kf8_signature(r: &astgen::Rendered) -> bool {
    r.elems.iter().enumerate().any(|(i, e)| {
        e.unwrap && e.open_line != e.close_line && r.elems.iter().enumerate().any(|(k, o)| k != i && (o.open_first_line..=o.open_line).chain([o.close_line]).any(|l| (e.open_first_line..=e.open_line).contains(&l) || l == e.close_line))
    })
}

/// KF9 signature: the text that is left when the removable extents are taken out (before any tidying) contains a
/// delimiter occurrence that the source did not have: the reference tokenizer finds more / other tags than survive.
pub fn kf9_signature(r: &astgen::Rendered, tr: &astgen::Truth, spell: &Spell) -> bool {
    let b = r.src.as_bytes();
    let kept: Vec<u8> = (0..b.len()).filter(|k| tr.keep[*k]).map(|k| b[k]).collect();
    let Ok(kept) = String::from_utf8(kept) else { return false };
    // offsets of the surviving tags in the kept text
    let mut before = vec![0usize; b.len() + 1];
    for k in 0..b.len() {
        before[k + 1] = before[k] + tr.keep[k] as usize;
    }
    let mut surviving: Vec<(usize, usize)> = r.elems.iter().flat_map(|e| [e.open, e.close]).filter(|t| (t.0..t.1).all(|k| tr.keep[k])).map(|t| (before[t.0], before[t.1])).collect();
    surviving.sort();
    ref_tags(&kept, &spell.ds, &spell.de) != surviving
}

#[derive(Clone, Copy, Default, Debug)]
pub struct Kf {
    pub kf2: bool,
    pub kf3: bool,
    pub kf8: bool,
    pub kf9: bool,
}

impl Kf {
    pub fn listed() -> Kf {
        let k = load_known("C19");
        let has = |s: &str| k.iter().any(|x| x.signature == s);
        Kf { kf2: has("inline-end-followed-by-removed-line"), kf3: has("tag-on-or-blank-wrapper-line"), kf8: has("foreign-tag-on-unwrap-tag-line"), kf9: has("removal-joins-text-into-delimiter") }
    }
}

/// KF2 signature (computed from the input and the configuration only): a removed region that has kept
/// non-blank text before it on its first line ends at the end of a line (only blanks follow), that
/// line break is kept, and the next line begins (after blanks) with another removed region.
pub fn kf2_signature(r: &astgen::Rendered, keep: &[bool]) -> bool {
    let b = r.src.as_bytes();
    let n = b.len();
    let blank = |c: u8| c == b' ' || c == b'\t';
    let mut i = 0;
    while i < n {
        if keep[i] {
            i += 1;
            continue;
        }
        let a = i;
        while i < n && !keep[i] {
            i += 1;
        }
        let end = i; // removed run [a, end)
        // kept non-blank text before the run on its first line
        let ls = r.src[..a].rfind('\n').map(|p| p + 1).unwrap_or(0);
        if !(ls..a).any(|k| keep[k] && !blank(b[k])) {
            continue;
        }
        // only blanks up to the line break, which is kept
        let mut e = end;
        while e < n && blank(b[e]) {
            e += 1;
        }
        if e >= n || b[e] != b'\n' || !keep[e] {
            continue;
        }
        // the next line begins (after blanks) with a removed byte
        let mut q = e + 1;
        while q < n && blank(b[q]) {
            q += 1;
        }
        if q < n && b[q] != b'\n' && !keep[q] {
            return true;
        }
    }
    false
}

pub fn oracle_kf(c: &HistoryCase, obs: &mut Obs, kf: Kf) -> Verdict {
    let (kf2, kf3) = (kf.kf2, kf.kf3);
    let r = astgen::render(&c.doc, &c.spell);
    if let Err(why) = astgen::in_domain(&r, &opts().domain()) {
        obs.excluded(why);
        return Verdict::Pass;
    }
    // KF3 signature: a tag sits on a wrapper line of an unwrap-block, or a wrapper line is blank
    // Documents with the signature of KF3 / KF8 are not dropped: every run of the history is still executed (on the
    // original, on the previous result and on its own result), and must return; nothing about the text holds there
    // on the unchanged tree, not even idempotence (a tag that lost its partner pairs up with another one in the next run)
    let mut relaxed = false;
    if kf3 {
        let mut strict = opts().domain();
        strict.tags_on_wrappers = false;
        strict.blank_wrappers = false;
        if let Err(why) = astgen::in_domain(&r, &strict) {
            obs.excluded(&format!("KF3:{why}(composition not asserted)"));
            relaxed = true;
        }
    }
    if kf.kf8 && kf8_signature(&r) {
        obs.excluded("KF8:foreign-tag-on-unwrap-tag-line(composition not asserted)");
        relaxed = true;
    }
    // (elements whose reference extent is undefined count as kept in this mask: the predicate stays a function of the input)
    if kf.kf9 && c.chain.iter().any(|a| kf9_signature(&r, &astgen::truth(&r, a), &c.spell)) {
        obs.excluded("KF9:removal-joins-text-into-delimiter");
        return Verdict::Pass;
    }
    if kf2 && c.chain.iter().any(|a| kf2_signature(&r, &astgen::truth(&r, a).keep)) {
        obs.excluded("KF2:inline-end-followed-by-removed-line");
        return Verdict::Pass;
    }
    {
        let mut intended: Vec<(usize, usize)> = r.elems.iter().flat_map(|e| [e.open, e.close]).collect();
        intended.sort();
        if ref_tags(&r.src, &c.spell.ds, &c.spell.de) != intended {
            obs.excluded("rendering-does-not-tokenize-as-intended");
            return Verdict::Pass;
        }
    }
    let mut cur = r.src.clone();
    let mut became_ready_steps = 0;
    let mut prev_ready = 0usize;
    let mut emptied_unwrap = false;
    for (i, acfg) in c.chain.iter().enumerate() {
        let cfg = acfg.to_cfg(&c.spell);
        let tr = astgen::truth(&r, acfg);
        // a ready unwrap-block whose tags share their lines with code: the reference extents are undefined, so only
        // the relations between runs of the implementation are asserted, not the by-construction ones
        let truth_ok = !tr.undefined;
        if !truth_ok {
            obs.class("ready-unwrap-with-shared-tag-lines(relations only)");
        }
        let next = match call_clean(&cur, &cfg) {
            Ok(o) => o,
            Err(p) => vfail!("step {i}: clean panicked: {p}\n  text = {:?}", cur),
        };
        // (1) idempotence, exact
        let again = match call_clean(&next, &cfg) {
            Ok(o) => o,
            Err(p) => vfail!("step {i}: clean of the cleaned text panicked: {p}\n  text = {:?}", next),
        };
        if again != next && !relaxed {
            vfail!("step {i} (time index {}, targets {:?}): cleaning the output again changes it\n  original = {:?}\n  once     = {:?}\n  twice    = {:?}", acfg.now_idx, cfg.targets, truncate(&r.src, 900), truncate(&next, 900), truncate(&again, 900));
        }
        // (2) composition up to whitespace
        let direct = match call_clean(&r.src, &cfg) {
            Ok(o) => o,
            Err(p) => vfail!("step {i}: clean of the original panicked: {p}\n  src = {:?}", r.src),
        };
        if relaxed {
            // (nothing about the text can be asserted here: once a pending element has lost one of its tags to an
            // unwrap part, same-name tags pair up differently and later runs delete text far outside the element)
            obs.class("KF3/KF8-layout(no panic only)");
            prev_ready = tr.n_ready;
            cur = next;
            continue;
        }
        if nows(&next) != nows(&direct) {
            vfail!("step {i} (time index {}, targets {:?}) of the chain {:?}: step-by-step cleaning and cleaning once differ beyond whitespace\n  original     = {:?}\n  step by step = {:?}\n  at once      = {:?}", acfg.now_idx, cfg.targets, c.chain.iter().map(|a| (a.now_idx, a.targets)).collect::<Vec<_>>(), truncate(&r.src, 900), truncate(&next, 900), truncate(&direct, 900));
        }
        // (3) nothing stranded: list is empty and no tag of a removed element remains
        match call_list(&next, &cfg, false, true).and_then(|j| parse_items(&j)) {
            Ok(items) => {
                if !items.is_empty() {
                    vfail!("step {i}: after cleaning, list still reports {} ready item(s) (lines {:?})\n  original = {:?}\n  cleaned  = {:?}", items.len(), items.iter().map(|x| (x.first, x.last)).collect::<Vec<_>>(), truncate(&r.src, 900), truncate(&next, 900));
                }
            }
            Err(e) => vfail!("step {i}: list failed: {e}\n  text = {:?}", next),
        }
        for e in r.elems.iter().filter(|_| truth_ok) {
            if tr.keep[e.open.0..e.open.1].iter().all(|k| !*k) && next.contains(&format!("#{}#", e.id)) {
                vfail!("step {i}: the opening tag of element #{}# is ready under this configuration but is still present (stranded by an earlier step?)\n  original = {:?}\n  cleaned  = {:?}", e.id, truncate(&r.src, 900), truncate(&next, 900));
            }
        }
        if i > 0 && tr.n_ready > prev_ready {
            became_ready_steps += 1;
        }
        if i > 0 && truth_ok {
            // an unwrap element that becomes ready now although all its inner lines were removed earlier
            for (k, e) in r.elems.iter().enumerate() {
                if let astgen::Extent::Parts(h, tl) = &tr.extents[k] {
                    if tr.decisions[k] == crate::refmodel::Decision::Ready && e.close_line - e.open_line - 1 > 2 {
                        let prev = astgen::truth(&r, &c.chain[i - 1]);
                        if prev.decisions[k] != crate::refmodel::Decision::Ready && prev.keep[h.1 + 1..tl.0.saturating_sub(1).max(h.1 + 1)].iter().all(|x| !*x) {
                            emptied_unwrap = true;
                        }
                    }
                }
            }
        }
        prev_ready = tr.n_ready;
        cur = next;
    }
    obs.evals(c.chain.len() as u64 * 4 - 1);
    if c.chain.len() >= 2 && became_ready_steps >= 1 {
        obs.class(&format!("chain-length={}", c.chain.len()));
        if became_ready_steps as usize == c.chain.len() - 1 {
            obs.class("every-step-removes-more");
        }
        if emptied_unwrap {
            obs.class("unwrap-whose-inner-lines-were-removed-earlier");
        }
        obs.nontrivial(c, || json!({"src": r.src, "chain": c.chain.iter().map(|a| json!({"time_index": a.now_idx, "targets": a.targets})).collect::<Vec<_>>(), "final": cur}));
    }
    Verdict::Pass
}

// ---- multi-line tags inside unwrapped bodies (raw templates) ----------------------------------------------------------

#[derive(Serialize, Deserialize, Clone, Hash, Debug)]
pub struct MlCase {
    /// indentation of the unwrap-block's tags
    pub ind: usize,
    /// indentation unit of the body
    pub unit: usize,
    /// separators inside the inner opening tag: false = one blank, true = line break + `cont` blanks
    pub sep1_break: bool,
    pub sep2_break: bool,
    /// leading blanks of continuation lines
    pub cont: usize,
    /// the name value itself spans a line break (followed by `cont` blanks)
    pub name_multiline: bool,
    /// 0: the unwrap-block is removed first, then the inner element; 1: the other way round; 2: both at once, twice
    pub chain: u8,
    pub final_newline: bool,
}

impl MlCase {
    pub fn name(&self) -> String {
        if self.name_multiline {
            format!("feature\n{}one", " ".repeat(self.cont))
        } else {
            "feature-one".to_string()
        }
    }
    pub fn source(&self) -> String {
        let i = " ".repeat(self.ind);
        let b = " ".repeat(self.ind + self.unit);
        let sep = |brk: bool| if brk { format!("\n{}", " ".repeat(self.cont)) } else { " ".to_string() };
        let mut s = format!("before();\n{i}<tl to=\"2001-01-01 00:00:00\" unwrap-block>\n{i}if (released) {{\n{b}first();\n{b}<rm{}name=\"{}\"{}c=\"x\">\n{b}  foo();\n{b}</rm>\n{b}last();\n{i}}}\n{i}</tl>\nafter();", sep(self.sep1_break), self.name(), sep(self.sep2_break));
        if self.final_newline {
            s.push('\n');
        }
        s
    }
    /// KF10 signature (input and chain only): the name value spans a line break, its continuation line is indented deeper
    /// than the unwrap-block's tags (so the dedent of the body rewrites the value), and the unwrap-block goes first
    pub fn kf10_signature(&self) -> bool {
        self.name_multiline && self.cont > self.ind && self.chain == 0
    }
}

pub fn ml_oracle(c: &MlCase, obs: &mut Obs, kf10: bool) -> Verdict {
    if kf10 && c.kf10_signature() {
        obs.excluded("KF10:dedent-rewrites-multi-line-attribute-value");
        return Verdict::Pass;
    }
    let src = c.source();
    let t_before = epoch(2000, 6, 1, 0, 0, 0);
    let t_after = epoch(2002, 6, 1, 0, 0, 0);
    let mk = |now: i64, with_target: bool| Cfg { ds: "<".into(), de: ">".into(), tl_tag: "tl".into(), rm_tag: "rm".into(), now, offset: "+00:00".into(), targets: if with_target { vec![c.name()] } else { vec![] } };
    let chain: Vec<Cfg> = match c.chain {
        0 => vec![mk(t_after, false), mk(t_after, true)],
        1 => vec![mk(t_before, true), mk(t_after, true)],
        _ => vec![mk(t_after, true), mk(t_after, true)],
    };
    let mut cur = src.clone();
    for (i, cfg) in chain.iter().enumerate() {
        let next = match call_clean(&cur, cfg) {
            Ok(o) => o,
            Err(p) => vfail!("step {i}: clean panicked: {p}\n  text = {:?}", cur),
        };
        let again = match call_clean(&next, cfg) {
            Ok(o) => o,
            Err(p) => vfail!("step {i}: clean of the cleaned text panicked: {p}\n  text = {:?}", next),
        };
        if again != next {
            vfail!("step {i}: cleaning the output again changes it\n  original = {:?}\n  once     = {:?}\n  twice    = {:?}", src, next, again);
        }
        let direct = match call_clean(&src, cfg) {
            Ok(o) => o,
            Err(p) => vfail!("step {i}: clean of the original panicked: {p}\n  src = {:?}", src),
        };
        if nows(&next) != nows(&direct) {
            vfail!("step {i} (targets {:?}): step-by-step cleaning and cleaning once differ beyond whitespace\n  original     = {:?}\n  step by step = {:?}\n  at once      = {:?}", cfg.targets, src, next, direct);
        }
        cur = next;
    }
    // after the last step both elements are gone
    if cur.contains("<tl") || cur.contains("<rm") || cur.contains("foo()") {
        vfail!("after the whole chain a ready element is still there\n  original = {:?}\n  final    = {:?}", src, cur);
    }
    if !(cur.contains("first();") && cur.contains("last();") && cur.contains("before();") && cur.contains("after();")) {
        vfail!("after the whole chain surviving code is missing\n  original = {:?}\n  final    = {:?}", src, cur);
    }
    obs.evals(chain.len() as u64 * 3);
    if c.sep1_break || c.sep2_break || c.name_multiline {
        obs.class(if c.name_multiline { "multi-line-attribute-value" } else { "multi-line-tag" });
        obs.nontrivial_counted(|| json!({"src": src, "chain": c.chain, "final": cur}));
    }
    Verdict::Pass
}

fn ml_cases() -> Vec<MlCase> {
    let mut v = vec![];
    for ind in [0usize, 2] {
        for unit in [2usize, 4] {
            for sep1_break in [false, true] {
                for sep2_break in [false, true] {
                    for cont in [0usize, 2, 3, 8] {
                        for name_multiline in [false, true] {
                            for chain in 0u8..3 {
                                for final_newline in [false, true] {
                                    v.push(MlCase { ind, unit, sep1_break, sep2_break, cont, name_multiline, chain, final_newline });
                                }
                            }
                        }
                    }
                }
            }
        }
    }
    v
}

pub fn check(ctx: &mut Ctx) {
    ctx.rule = "cases = (AST document, history): a history is a chain of 1..4 configurations with non-decreasing time index and growing target set; the interpreter applies clean step by step. Invariants after every step: (1) clean(cur, cfg) == cur exactly; (2) nows(cur) == nows(clean(original, cfg)); (3) list(cur, cfg) is empty and no `#id#` of an element whose opening tag lies in a removable extent under cfg remains. Non-trivial = chain length >= 2 and some later step makes more elements ready.".into();
    ctx.assume("delimiter strings occur only as parts of tags");
    for c in ["chain-length=2", "chain-length=3", "chain-length=4", "every-step-removes-more", "unwrap-whose-inner-lines-were-removed-earlier"] {
        ctx.require_class(c);
    }
    let kf = Kf { kf2: ctx.is_known("inline-end-followed-by-removed-line"), kf3: ctx.is_known("tag-on-or-blank-wrapper-line"), kf8: ctx.is_known("foreign-tag-on-unwrap-tag-line"), kf9: ctx.is_known("removal-joins-text-into-delimiter") };
    let (kf2, kf3) = (kf.kf2, kf.kf3);
    if kf.kf8 {
        ctx.assume("known finding KF8 (a tag of another element on the line of an unwrap-block's own opening / closing tag) is excluded by its input signature and counted");
    }
    if kf.kf9 {
        ctx.assume("known finding KF9 (removing the ready extents joins two text pieces into a delimiter string the source did not contain) is excluded by its input signature and counted");
    }
    if kf3 {
        ctx.assume("known finding KF3 (a tag sits on a wrapper line of an unwrap-block, or a wrapper line is blank: which line is 'the line after the tag' then depends on what earlier runs removed) is excluded by its input signature and counted");
    }
    if kf2 {
        ctx.assume("known finding KF2 (a removed region at the end of a code line followed by a line that starts with another removed region) is excluded by its input signature and counted");
    }
    ctx.replay_corpus(replay);
    ctx.run_known_witnesses(|sub, case, obs| {
        if sub == "multi-line-tags-in-bodies" {
            replay_case::<MlCase, _>(case, obs, |c, obs| ml_oracle(c, obs, false))
        } else {
            replay_case::<HistoryCase, _>(case, obs, |c, obs| oracle_kf(c, obs, Kf::default()))
        }
    });
    ctx.random("histories", 420, 300_000, 12_000_000, gen, move |c, obs| oracle_kf(c, obs, kf));
    ctx.reshrink::<HistoryCase, _, _>("histories", move |c, obs| oracle_kf(c, obs, kf), |c, fails| {
        // fewer steps first, then a smaller document
        let mut cur = c.clone();
        loop {
            let mut progressed = false;
            for i in 0..cur.chain.len() {
                if cur.chain.len() <= 1 {
                    break;
                }
                let mut cand = cur.clone();
                cand.chain.remove(i);
                if fails(&cand) {
                    cur = cand;
                    progressed = true;
                    break;
                }
            }
            if !progressed {
                break;
            }
        }
        let doc = astgen::minimize_doc(&cur.doc, |d| fails(&HistoryCase { doc: d.clone(), spell: cur.spell.clone(), chain: cur.chain.clone() }));
        HistoryCase { doc, spell: cur.spell.clone(), chain: cur.chain.clone() }
    });
    // deep nesting (far beyond the random generator's depth 3): wrappers that vanish in an earlier run change how deep the
    // elements inside them are nested in the next run
    {
        use astgen::{Cond, Elem, Node};
        let mut deep: Vec<HistoryCase> = vec![];
        let spell = Spell { ds: "<".into(), de: ">".into(), tl: "tl".into(), rm: "rm".into(), unreg: "zz".into() };
        for k in [3usize, 9, 17, 24, 40] {
            for (conds, chain) in [
                (vec![(Cond::Tl(0), true)], vec![(1usize, 0u8), (2, 0)]),
                (vec![(Cond::Tl(0), true), (Cond::Tl(1), false)], vec![(1, 0), (2, 0), (3, 0)]),
                (vec![(Cond::Rm(1), true), (Cond::Tl(0), true)], vec![(1, 0), (1, 2), (3, 2)]),
                (vec![(Cond::Tl(1), true)], vec![(1, 0), (3, 0)]),
            ] {
                let unit = "  ";
                let ind = unit.repeat(k.min(6));
                let leaf = |id: usize, cond: Cond| Node::Block { indent: ind.clone(), open_lead: String::new(), elem: Elem { id, cond, skip: false, unwrap: false, style: 0 }, open_trail: String::new(), kids: vec![Node::Line(format!("{ind}{unit}leaf{id}();"))], close_indent: ind.clone(), close_lead: String::new(), close_trail: String::new() };
                let inner = vec![Node::Line(format!("{ind}keep_a();")), leaf(k + 1, Cond::Tl(1)), Node::Line(format!("{ind}keep_b();")), leaf(k + 2, Cond::Tl(0)), Node::Line(format!("{ind}keep_c();"))];
                let doc = astgen::deep_doc(k, &conds, unit, inner);
                deep.push(HistoryCase { doc, spell: spell.clone(), chain: chain.iter().map(|(n, t)| ACfg { now_idx: *n, targets: *t }).collect() });
            }
        }
        let n = deep.len();
        ctx.exhaustive("deep-histories", &format!("{n} histories over documents with 3..40 nested (unwrap-block) wrappers around two elements that expire at different times"), deep.into_iter().map(|c| vec![c]).collect(), move |cs, obs| {
            for c in cs {
                if let Verdict::Fail(m) = oracle_kf(c, obs, kf) {
                    return Some(fail_case("deep-histories", c, truncate(&m, 1500)));
                }
            }
            None
        });
    }
    // tags that span several lines (the README's own layout) inside an unwrapped body
    let kf10 = ctx.is_known("dedent-rewrites-multi-line-attribute-value");
    if kf10 {
        ctx.assume("known finding KF10 (the dedent of an unwrapped body rewrites a quoted attribute value that spans a line break) is excluded by its input signature and counted");
    }
    ctx.require_class("multi-line-tag");
    let cases = ml_cases();
    let n = cases.len();
    ctx.exhaustive("multi-line-tags-in-bodies", &format!("{n} templates: an unwrap-block whose body holds an element with a multi-line opening tag (attribute separators and / or the name value span line breaks, continuation lines indented 0..8) x tag indent x body unit x 3 histories (block first, element first, both at once twice)"), cases.into_iter().map(|c| vec![c]).collect(), move |cs, obs| {
        for c in cs {
            if let Verdict::Fail(m) = ml_oracle(c, obs, kf10) {
                return Some(fail_case("multi-line-tags-in-bodies", c, m));
            }
        }
        None
    });
}

pub fn replay(sub: &str, case: &Value, obs: &mut Obs) -> Result<Verdict, String> {
    if sub == "multi-line-tags-in-bodies" {
        let kf10 = load_known("C19").iter().any(|k| k.signature == "dedent-rewrites-multi-line-attribute-value");
        return replay_case::<MlCase, _>(case, obs, |c, obs| ml_oracle(c, obs, kf10));
    }
    let kf = Kf::listed();
    replay_case::<HistoryCase, _>(case, obs, |c, obs| {
        obs.eval();
        oracle_kf(c, obs, kf)
    })
}
