//! C09: tag grammar round-trip; quoted values are opaque.

use crate::engine::*;
use crate::refmodel::ref_tags;
use crate::util::*;
use crate::vfail;
use chiritori::element_parser;
use chiritori::tokenizer::tokenize;
use serde::{Deserialize, Serialize};
use serde_json::{json, Value};

#[derive(Serialize, Deserialize, Clone, Hash, Debug, PartialEq, Eq)]
pub enum Attr {
    Bare(String),
    /// key, value, quote char, text around '=' (e.g. "=", " = ")
    Kv(String, String, char, String),
}

#[derive(Serialize, Deserialize, Clone, Hash, Debug)]
pub struct TagCase {
    pub ds: String,
    pub de: String,
    pub lead: String,
    pub name: String,
    /// (separator before the attribute, attribute)
    pub attrs: Vec<(String, Attr)>,
    pub tail: String,
}

impl TagCase {
    pub fn body(&self) -> String {
        let mut b = String::new();
        b.push_str(&self.lead);
        b.push_str(&self.name);
        for (sep, a) in &self.attrs {
            b.push_str(sep);
            match a {
                Attr::Bare(w) => b.push_str(w),
                Attr::Kv(k, v, q, eq) => {
                    b.push_str(k);
                    b.push_str(eq);
                    b.push(*q);
                    b.push_str(v);
                    b.push(*q);
                }
            }
        }
        b.push_str(&self.tail);
        b
    }
    pub fn expected(&self) -> Vec<(String, Option<String>)> {
        let mut v = vec![];
        for (sep, a) in &self.attrs {
            if sep.contains('*') {
                v.push(("*".to_string(), None));
            }
            match a {
                Attr::Bare(w) => v.push((w.clone(), None)),
                Attr::Kv(k, val, _, _) => v.push((k.clone(), Some(val.clone()))),
            }
        }
        if self.tail.contains('*') {
            v.push(("*".to_string(), None));
        }
        v
    }
    fn nontrivial(&self) -> bool {
        self.attrs.len() >= 2
            && (self.attrs.iter().any(|(s, _)| s.contains('\n'))
                || self.attrs.iter().any(|(_, a)| match a {
                    Attr::Kv(_, v, _, _) => v.contains(' ') || v.contains('=') || v.contains('\'') || v.contains('"') || v.contains('\n') || v == "skip" || v == "unwrap-block" || v.starts_with('/') || v.contains(self.ds.as_str()),
                    _ => false,
                }))
    }
}

pub const PAIRS: &[(&str, &str)] = &[("<", ">"), ("/* <", "> */"), ("<!-- <", "> -->")];
pub const NAMES: &[&str] = &["tl", "rm", "x", "/tl", "time-limited", "期限"];
pub const BARE: &[&str] = &["skip", "unwrap-block", "foo", "*", "a.b", "k9", "日本"];
pub const KEYS: &[&str] = &["to", "name", "c", "data-x"];
pub const VALUES: &[&str] = &["", "v", "2020-01-01 00:00:00", "a b", "a=b", "it's", "say \"hi\"", "line1\nline2", "skip", "unwrap-block", "/tl", "x > y", "日本語", " ", "=", "a  b", "\t", "\u{0}DS", "name='a' skip", "> ", "C:\\work\\", "\\", "a\\\\\\"];
pub const SEPS: &[&str] = &[" ", "  ", "\n", "\n  ", " \n * ", "\n * ", " \n"];
pub const TAILS: &[&str] = &["", " ", "  ", "\n", " \n * "];
pub const LEADS: &[&str] = &["", " ", "  "];
pub const EQS: &[&str] = &["=", " =", "= ", " = "];

fn value_for(v: &str, ds: &str) -> String {
    v.replace("\u{0}DS", ds)
}

fn quote_for(v: &str, prefer_double: bool) -> char {
    if v.contains('"') {
        '\''
    } else if v.contains('\'') {
        '"'
    } else if prefer_double {
        '"'
    } else {
        '\''
    }
}

pub fn oracle(c: &TagCase, obs: &mut Obs, counted: bool) -> Verdict {
    let body = c.body();
    let src = format!("pre{}{}{}post", c.ds, body, c.de);
    // the generated tag must be what the textbook scan sees (otherwise the case is outside the grammar)
    if ref_tags(&src, &c.ds, &c.de) != vec![(3, 3 + c.ds.len() + body.len() + c.de.len())] {
        obs.excluded("value-or-separator-forms-an-end-delimiter");
        return Verdict::Pass;
    }
    let exp_attrs = c.expected();
    let got = std::panic::catch_unwind(|| {
        let toks = tokenize(&src, &c.ds, &c.de);
        if toks.len() != 3 {
            return Err(format!("{} tokens instead of 3", toks.len()));
        }
        match element_parser::parse(&toks[1]) {
            None => Err("the tag does not parse (None)".to_string()),
            Some(el) => Ok((el.name.to_string(), el.attrs.iter().map(|a| (a.name.to_string(), a.value.map(|v| v.to_string()))).collect::<Vec<_>>())),
        }
    });
    match got {
        Err(_) => vfail!("tokenize/parse panicked: {} on {:?}", last_panic(), src),
        Ok(Err(e)) => vfail!("{e} for {:?}; expected name {:?} attrs {:?}", src, c.name, exp_attrs),
        Ok(Ok((name, attrs))) => {
            if name != c.name {
                vfail!("name is {:?}, expected {:?} for {:?}", name, c.name, src);
            }
            // a `*` that is part of a comment-continuation separator (" \n * ") is not asserted either way
            let star = |v: &Vec<(String, Option<String>)>| -> Vec<(String, Option<String>)> { v.iter().filter(|(k, val)| !(k == "*" && val.is_none())).cloned().collect() };
            let (attrs_cmp, exp_cmp) = if c.attrs.iter().any(|(s, _)| s.contains('*')) || c.tail.contains('*') { (star(&attrs), star(&exp_attrs)) } else { (attrs.clone(), exp_attrs.clone()) };
            if attrs_cmp != exp_cmp {
                vfail!("attributes are {:?}, expected {:?} for {:?}", attrs, exp_attrs, src);
            }
        }
    }
    if c.nontrivial() && (counted || c.attrs.len() >= 3) {
        let mk = || json!({"tag": format!("{}{}{}", c.ds, body, c.de), "name": c.name, "attrs": exp_attrs});
        if counted {
            obs.nontrivial_counted(mk);
        } else {
            obs.nontrivial(c, mk);
        }
        if c.attrs.iter().any(|(s, _)| s.contains('\n')) {
            obs.class("line-break-separator");
        }
        if c.attrs.iter().zip(c.attrs.iter().skip(1)).any(|((_, a), (s, _))| matches!(a, Attr::Kv(..)) && s.contains('\n')) {
            obs.class("line-break-after-quoted-value");
        }
    }
    Verdict::Pass
}

pub fn gen(t: &mut Tape) -> TagCase {
    let (ds, de) = *t.pick(PAIRS);
    let name = t.s(NAMES).to_string();
    let lead = t.s(LEADS).to_string();
    let n = t.below(5);
    let mut attrs = vec![];
    for _ in 0..n {
        let sep = t.s(SEPS).to_string();
        let a = if t.chance(40) {
            Attr::Bare(t.s(BARE).to_string())
        } else {
            let v = value_for(t.s(VALUES), ds);
            let q = quote_for(&v, t.chance(50));
            let eq = if t.chance(70) { "=".to_string() } else { t.s(EQS).to_string() };
            Attr::Kv(t.s(KEYS).to_string(), v, q, eq)
        };
        attrs.push((sep, a));
    }
    let tail = t.s(TAILS).to_string();
    TagCase { ds: ds.into(), de: de.into(), lead, name, attrs, tail }
}

// ---- decision part: an opaque attribute does not change any removal decision -----------------------------------

#[derive(Serialize, Deserialize, Clone, Hash, Debug)]
pub struct OpaqueCase {
    pub ds: String,
    pub de: String,
    pub tag: String,
    /// attribute texts of the element, e.g. ["name='a'", "skip"]
    pub attrs: Vec<String>,
    pub sep: String,
    /// the opaque attribute and where it is inserted
    pub opaque: String,
    pub pos: usize,
    pub expect_removed: bool,
}

fn opaque_src(c: &OpaqueCase, with: bool) -> String {
    let mut a: Vec<&str> = c.attrs.iter().map(|s| s.as_str()).collect();
    if with {
        a.insert(c.pos.min(a.len()), &c.opaque);
    }
    let mut body = c.tag.clone();
    for x in a {
        body.push_str(&c.sep);
        body.push_str(x);
    }
    format!("A{}{}{}X{}/{}{}B", c.ds, body, c.de, c.ds, c.tag, c.de)
}

pub fn opaque_oracle(c: &OpaqueCase, obs: &mut Obs) -> Verdict {
    let mut cfg = Cfg::simple(&c.ds, &c.de);
    cfg.targets = vec!["a".into()];
    for with in [false, true] {
        let src = opaque_src(c, with);
        let span = src.len() - 2;
        if ref_tags(&src, &c.ds, &c.de).len() != 2 || span == 0 {
            obs.excluded("opaque-value-forms-an-end-delimiter");
            return Verdict::Pass;
        }
        let out = match call_clean(&src, &cfg) {
            Ok(o) => o,
            Err(p) => vfail!("clean panicked: {p} on {:?}", src),
        };
        let removed = if out == "AB" {
            true
        } else if out == src {
            false
        } else {
            vfail!("clean({:?}) = {:?}: neither removed as a whole nor untouched", src, out);
        };
        if removed != c.expect_removed {
            vfail!("{} the opaque attribute {:?} the element is {}, expected {} — source {:?}", if with { "with" } else { "without" }, c.opaque, if removed { "removed" } else { "kept" }, if c.expect_removed { "removed" } else { "kept" }, src);
        }
    }
    obs.evals(1);
    obs.nontrivial(c, || json!({"src": opaque_src(c, true), "removed": c.expect_removed}));
    Verdict::Pass
}

pub fn gen_opaque(t: &mut Tape) -> OpaqueCase {
    let (ds, de) = *t.pick(PAIRS);
    // (tag, condition attribute, holds?)
    let conds: &[(&str, &str, bool)] = &[
        ("rm", "name='a'", true),
        ("rm", "name=\"b\"", false),
        ("tl", "to='2020-01-01 00:00:00'", true),
        ("tl", "to=\"2999-01-01 00:00:00\"", false),
        ("zz", "name='a'", false),
        ("rm", "c='x'", false),
        // the condition value itself is opaque: padding and line breaks inside the quotes are part of the name
        ("rm", "name=' a'", false),
        ("rm", "name='a '", false),
        ("rm", "name=\"a\n\"", false),
        ("rm", "name='A'", false),
    ];
    let (tag, cond, holds) = *t.pick(conds);
    let mut attrs = vec![cond.to_string()];
    let mut skip = false;
    for _ in 0..t.below(3) {
        let a = t.s(&["foo", "data-x='1'", "skip", "k9"]);
        if a == "skip" {
            skip = true;
        }
        let at = t.below(attrs.len() + 1);
        attrs.insert(at, a.to_string());
    }
    let v = value_for(t.s(&["skip", " skip ", "unwrap-block", "name='b'", "to=\"2999-01-01 00:00:00\"", "/rm", "/tl", "\u{0}DS", "a=b", "x\nskip", "skip\n", "", " ", "name=\"zz\" skip", "it's skip", "\"skip\"", "= skip ="]), ds);
    let q = quote_for(&v, t.chance(50));
    if v.contains('"') && v.contains('\'') {
        // cannot be quoted: use a plain value
        return OpaqueCase { ds: ds.into(), de: de.into(), tag: tag.into(), attrs, sep: " ".into(), opaque: "c='skip'".into(), pos: 0, expect_removed: holds && !skip };
    }
    let key = t.s(&["c", "data-x", "x"]);
    let opaque = format!("{key}={q}{v}{q}");
    let pos = t.below(attrs.len() + 1);
    let sep = t.s(&[" ", "  ", "\n", "\n  "]).to_string();
    OpaqueCase { ds: ds.into(), de: de.into(), tag: tag.into(), attrs, sep, opaque, pos, expect_removed: holds && !skip }
}

// ---- check ----------------------------------------------------------------------------------------------------------

pub fn check(ctx: &mut Ctx) {
    ctx.rule = "cases = tags generated from the documented grammar: name from a pool (incl. closers and a multi-byte name), 0..4 attributes each bare or key=value in single or double quotes, values from an adversarial pool (empty, spaces, '=', the other quote, line break, keywords, '/tl', the start delimiter, tab, attribute-like text), separators from {' ', '  ', '\\n', '\\n  ', ' \\n * ', '\\n * ', ' \\n'}, optional spaces around '=', optional padding inside the delimiters; embedded as pre+tag+post and tokenized with the real tokenizer under 3 delimiter pairs. Exhaustive for <= 2 attributes over reduced pools, random for <= 4. Oracle: parse == generating (name, attribute list) exactly. Decision part: probe elements with an opaque quoted attribute inserted at every position must be removed / kept exactly as without it. Non-trivial = >= 2 attributes and a line-break separator or an adversarial value.".into();
    ctx.assume("never generated because unspecified: unquoted values, duplicate condition attributes, values containing their own quote character or the end delimiter, tag bodies starting with the start or ending with the end delimiter");
    ctx.require_class("line-break-separator");
    ctx.require_class("line-break-after-quoted-value");
    ctx.replay_corpus(replay);
    // exhaustive: <= 2 attributes over reduced pools
    let red_values: Vec<&str> = vec!["", "v", "a b", "a=b", "it's", "say \"hi\"", "l1\nl2", "skip", "/tl", "\u{0}DS"];
    let red_bare = ["skip", "foo", "*"];
    let red_keys = ["to", "name", "c"];
    let red_seps = [" ", "\n", "\n  ", " \n * ", "  "];
    let mut alts: Vec<Attr> = vec![];
    for b in red_bare {
        alts.push(Attr::Bare(b.into()));
    }
    for k in red_keys {
        for v in &red_values {
            for dq in [true, false] {
                for eq in ["=", " = "] {
                    alts.push(Attr::Kv(k.into(), v.to_string(), if dq { '"' } else { '\'' }, eq.into()));
                }
            }
        }
    }
    let n_alts = alts.len();
    let mut units = vec![];
    for (pi, _) in PAIRS.iter().enumerate() {
        for ni in 0..3 {
            for s1 in 0..red_seps.len() {
                units.push((pi, ni, s1));
            }
        }
    }
    let total = PAIRS.len() * 3 * 2 * 2 * (1 + red_seps.len() * n_alts + red_seps.len() * n_alts * red_seps.len() * n_alts);
    let alts_ref = &alts;
    ctx.exhaustive("small-tags", &format!("3 delimiter pairs x 3 names x 2 leads x 2 tails x (0, 1 or 2 attributes from {n_alts} alternatives x 5 separators each) ~ {total} tags"), units, move |&(pi, ni, s1), obs| {
        let (ds, de) = PAIRS[pi];
        let name = ["tl", "/rm", "期限"][ni];
        let fix = |a: &Attr| -> Option<Attr> {
            match a {
                Attr::Kv(k, v, q, eq) => {
                    let v = value_for(v, ds);
                    if v.contains(*q) {
                        return None;
                    }
                    Some(Attr::Kv(k.clone(), v, *q, eq.clone()))
                }
                b => Some(b.clone()),
            }
        };
        for lead in ["", " "] {
            for tail in ["", " \n"] {
                let run = |attrs: Vec<(String, Attr)>, obs: &mut Obs| -> Option<Failure> {
                    let c = TagCase { ds: ds.into(), de: de.into(), lead: lead.into(), name: name.into(), attrs, tail: tail.into() };
                    obs.eval();
                    if let Verdict::Fail(m) = oracle(&c, obs, true) {
                        return Some(fail_case("small-tags", &c, m));
                    }
                    None
                };
                if s1 == 0 {
                    if let Some(f) = run(vec![], obs) {
                        return Some(f);
                    }
                }
                for a1 in alts_ref {
                    let Some(a1) = fix(a1) else { continue };
                    if let Some(f) = run(vec![(red_seps[s1].to_string(), a1.clone())], obs) {
                        return Some(f);
                    }
                    for s2 in red_seps {
                        for a2 in alts_ref {
                            let Some(a2) = fix(a2) else { continue };
                            if let Some(f) = run(vec![(red_seps[s1].to_string(), a1.clone()), (s2.to_string(), a2)], obs) {
                                return Some(f);
                            }
                        }
                    }
                }
            }
        }
        None
    });
    // two tags in one document whose attribute texts coincide once quotes are dropped: each is decided on its own
    {
        let mut docs: Vec<(String, String, String)> = vec![];
        // (tag A, tag B, element name): A is ready, B is not (or vice versa)
        let pairs: &[(&str, &str, &str, bool, bool)] = &[
            ("rm", "name=\"a\" b=\"c\"", "name=\"a b=c\"", true, false),
            ("rm", "name='a' skip", "name='a skip'", false, false),
            // a single-line unwrap-block element is left untouched although its condition holds
            ("rm", "name='a' unwrap-block", "name='a unwrap-block'", false, false),
            ("tl", "to=\"2020-01-01 00:00:00\" x=\"y\"", "to=\"2020-01-01 00:00:00 x=y\"", true, false),
            ("rm", "c='name=a' name='b'", "c='x' name='a'", false, true),
            ("rm", "name='a'", "name=\"a\"", true, true),
        ];
        for (tag, a, b, ra, rb) in pairs {
            for (first, second, rf, rs) in [(a, b, ra, rb), (b, a, rb, ra)] {
                for sep in ["\n", " ", "x"] {
                    let e1 = format!("<{tag} {first}>P</{tag}>");
                    let e2 = format!("<{tag} {second}>Q</{tag}>");
                    let src = format!("A{e1}{sep}{e2}B");
                    let expect = format!("A{}{sep}{}B", if *rf { String::new() } else { e1.clone() }, if *rs { String::new() } else { e2.clone() });
                    docs.push((src, expect, tag.to_string()));
                }
            }
        }
        // attribute-like content on the CLOSING tag (the comment attribute, the README's multi-line layout) changes no decision
        for (open, ready) in [("rm name='a'", true), ("rm name='b'", false), ("tl to=\"2020-01-01 00:00:00\"", true), ("rm name='a' skip", false)] {
            let tag = open.split(' ').next().unwrap();
            for close_extra in ["", " c=\"end of block\"", " \n * ", " c='x y' k", "\nc='x'", " "] {
                for pre in ["A", "A\n"] {
                    let el = format!("<{open}>P</{tag}{close_extra}>");
                    let src = format!("{pre}{el}B");
                    let expect = if ready { format!("{pre}B") } else { src.clone() };
                    docs.push((src, expect, tag.to_string()));
                }
            }
        }
        let n = docs.len();
        ctx.exhaustive("look-alike-tags", &format!("{n} documents with two tags whose attribute texts coincide once the quotes are dropped (a quoted value is opaque: each element is decided on its own)"), vec![docs], |docs, obs| {
            let mut cfg = Cfg::simple("<", ">");
            cfg.targets = vec!["a".into()];
            for (src, expect, _) in docs {
                obs.eval();
                let c = OpaqueCase { ds: "<".into(), de: ">".into(), tag: src.clone(), attrs: vec![], sep: String::new(), opaque: expect.clone(), pos: 0, expect_removed: false };
                match call_clean(src, &cfg) {
                    Ok(out) if out == *expect || nows(&out) == nows(expect) => obs.nontrivial_counted(|| json!({"src": src, "out": out})),
                    Ok(out) => return Some(fail_case("look-alike-tags", &c, format!("clean({src:?}) = {out:?}, expected {expect:?}"))),
                    Err(p) => return Some(fail_case("look-alike-tags", &c, format!("clean panicked: {p}"))),
                }
            }
            None
        });
    }
    ctx.random("random-tags", 40, 600_000, 40_000_000, gen, |c, obs| oracle(c, obs, false));
    ctx.random("opaque-attribute", 30, 300_000, 15_000_000, gen_opaque, opaque_oracle);
}

pub fn replay(sub: &str, case: &Value, obs: &mut Obs) -> Result<Verdict, String> {
    match sub {
        "look-alike-tags" => replay_case::<OpaqueCase, _>(case, obs, |c, obs| {
            // `tag` holds the document, `opaque` the expected output
            obs.eval();
            let mut cfg = Cfg::simple("<", ">");
            cfg.targets = vec!["a".into()];
            match call_clean(&c.tag, &cfg) {
                Ok(out) if nows(&out) == nows(&c.opaque) => Verdict::Pass,
                Ok(out) => Verdict::Fail(format!("clean({:?}) = {out:?}, expected {:?}", c.tag, c.opaque)),
                Err(p) => Verdict::Fail(format!("clean panicked: {p}")),
            }
        }),
        "opaque-attribute" => replay_case::<OpaqueCase, _>(case, obs, |c, obs| {
            obs.eval();
            opaque_oracle(c, obs)
        }),
        _ => replay_case::<TagCase, _>(case, obs, |c, obs| {
            obs.eval();
            oracle(c, obs, false)
        }),
    }
}
