//! Driving the chiritori binary (built by bin/build cli from /repo's working tree).

use std::io::Write;
use std::process::{Command, Stdio};

pub fn cli_bin() -> String {
    format!("{}/.build/repo-cli/debug/chiritori", crate::engine::verif_dir())
}

pub struct CliOut {
    pub status: i32,
    pub stdout: Vec<u8>,
    pub stderr: String,
}

/// Run the binary. `envs`: (name, Some(value)) sets, (name, None) removes. Err = could not run at all.
pub fn run_cli(args: &[String], stdin: Option<&[u8]>, envs: &[(&str, Option<&str>)], cwd: Option<&std::path::Path>) -> Result<CliOut, String> {
    let mut cmd = Command::new(cli_bin());
    cmd.args(args).stdout(Stdio::piped()).stderr(Stdio::piped());
    cmd.stdin(if stdin.is_some() { Stdio::piped() } else { Stdio::null() });
    cmd.env_remove("RUST_BACKTRACE");
    for (k, v) in envs {
        match v {
            Some(v) => {
                cmd.env(k, v);
            }
            None => {
                cmd.env_remove(k);
            }
        }
    }
    if let Some(d) = cwd {
        cmd.current_dir(d);
    }
    let mut child = cmd.spawn().map_err(|e| format!("cannot start {}: {e}", cli_bin()))?;
    if let Some(data) = stdin {
        let mut si = child.stdin.take().unwrap();
        let data = data.to_vec();
        // small inputs: write directly (pipe buffer 64 KiB); larger ones from a thread
        let h = std::thread::spawn(move || {
            let _ = si.write_all(&data);
        });
        let out = child.wait_with_output().map_err(|e| format!("wait failed: {e}"))?;
        let _ = h.join();
        return Ok(CliOut { status: out.status.code().unwrap_or(-1), stdout: out.stdout, stderr: String::from_utf8_lossy(&out.stderr).to_string() });
    }
    let out = child.wait_with_output().map_err(|e| format!("wait failed: {e}"))?;
    Ok(CliOut { status: out.status.code().unwrap_or(-1), stdout: out.stdout, stderr: String::from_utf8_lossy(&out.stderr).to_string() })
}

pub fn cli_available() -> bool {
    std::path::Path::new(&cli_bin()).exists()
}

/// RFC 3339 text of instant `epoch` at UTC offset `ofs_secs`
pub fn rfc3339(epoch: i64, ofs_secs: i64) -> String {
    let w = crate::util::wall(epoch, ofs_secs);
    format!("{}T{}{}", &w[..10], &w[11..], crate::util::offset_text(ofs_secs, true))
}
