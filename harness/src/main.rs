use cv::engine::*;
use cv::props;
use std::process::Command;

fn usage() -> ! {
    eprintln!("usage: cv check <ID> [quick|thorough]\n       cv replay <ID> <file>");
    std::process::exit(2);
}

fn tier_of(arg: Option<&String>) -> Tier {
    match arg.map(|s| s.as_str()).or(std::env::var("VERIF_TIER").ok().as_deref()) {
        Some("thorough") => Tier::Thorough,
        _ => Tier::Quick,
    }
}

fn seed() -> u64 {
    std::env::var("VERIF_SEED").ok().and_then(|s| s.trim().parse::<i64>().ok()).map(|v| v as u64).unwrap_or(1)
}

/// Watchdog: a hang is never a violation. Generous bounds; exit 2.
fn watchdog(tier: Tier) {
    let secs = 60 + std::env::var("VERIF_WATCHDOG_S").ok().and_then(|s| s.parse().ok()).unwrap_or(match tier {
        Tier::Quick => 900u64,
        Tier::Thorough => 3 * 3600,
    });
    std::thread::spawn(move || {
        std::thread::sleep(std::time::Duration::from_secs(secs));
        eprintln!("INCONCLUSIVE: watchdog — no result after {secs} s (a hang is reported as inconclusive, never as a violation)");
        std::process::exit(2);
    });
}

fn main() {
    // same stack size as the worker threads of the checks, so that single-case runs are comparable
    let h = std::thread::Builder::new().stack_size(64 << 20).spawn(real_main).expect("spawn main thread");
    let _ = h.join();
    std::process::exit(2);
}

fn real_main() {
    let args: Vec<String> = std::env::args().collect();
    if args.len() < 3 {
        usage();
    }
    install_recording_panic_hook();
    match args[1].as_str() {
        // parent: runs the check in a child process so that an abort of the process (stack overflow,
        // double panic, abort()) is observed instead of taking the check down
        "check" => {
            let id = args[2].clone();
            let tier = tier_of(args.get(3));
            let limit = std::env::var("VERIF_WATCHDOG_S").ok().and_then(|s| s.parse().ok()).unwrap_or(match tier {
                Tier::Quick => 900u64,
                Tier::Thorough => 3 * 3600,
            });
            let exe = std::env::current_exe().expect("current_exe");
            let mut child = match Command::new(&exe).args(["check-inner", &id, tier.name()]).spawn() {
                Ok(c) => c,
                Err(e) => {
                    eprintln!("INCONCLUSIVE: cannot start the check process: {e}");
                    std::process::exit(2);
                }
            };
            // watchdog: a hang is never a violation; the child is killed so that nothing is left running
            let t0 = std::time::Instant::now();
            let status = loop {
                match child.try_wait() {
                    Ok(Some(s)) => break s,
                    Ok(None) => {
                        if t0.elapsed().as_secs() > limit {
                            let _ = child.kill();
                            let _ = child.wait();
                            eprintln!("INCONCLUSIVE property={id} : watchdog — no result after {limit} s (a hang is reported as inconclusive, never as a violation)");
                            std::process::exit(2);
                        }
                        std::thread::sleep(std::time::Duration::from_millis(200));
                    }
                    Err(e) => {
                        eprintln!("INCONCLUSIVE: waiting for the check process failed: {e}");
                        std::process::exit(2);
                    }
                }
            };
            match status.code() {
                Some(c) if c < 128 => std::process::exit(c),
                other => {
                    eprintln!("the check process of {id} died abnormally ({:?}, {status})", other);
                    if id == "C01" {
                        std::process::exit(cv::props::c01::isolate_abort(&exe, tier, seed()));
                    }
                    eprintln!("INCONCLUSIVE property={id} : the harness process was killed (abort / stack overflow in the code under test?). Totality is C01's business; run bin/check C01.");
                    std::process::exit(2);
                }
            }
        }
        "check-inner" => {
            let id = args[2].clone();
            let tier = tier_of(args.get(3));
            watchdog(tier);
            let mut ctx = Ctx::new(&id, tier, seed());
            if !props::run(&mut ctx) {
                eprintln!("unknown property {id}");
                std::process::exit(2);
            }
            std::process::exit(ctx.finish());
        }
        // run the C01 oracle on one stored case; exit 0 = fine, 1 = violation (panic caught); an abort kills the process
        "c01-single" => {
            let text = std::fs::read_to_string(&args[2]).unwrap_or_default();
            let v: serde_json::Value = serde_json::from_str(&text).unwrap_or(serde_json::Value::Null);
            let mut st = Stats::new();
            let mut obs = Obs::new(&mut st);
            match props::c01::replay("", &v, &mut obs) {
                Ok(Verdict::Pass) => std::process::exit(0),
                Ok(Verdict::Fail(m)) => {
                    println!("{m}");
                    std::process::exit(1)
                }
                _ => std::process::exit(2),
            }
        }
        "replay" => {
            if args.len() < 4 {
                usage();
            }
            let id = args[2].clone();
            if id == "C01" && std::env::var("CV_REPLAY_INNER").is_err() {
                // isolate: an aborting case must not take the replay driver down silently
                let exe = std::env::current_exe().expect("current_exe");
                let st = Command::new(&exe).args(["replay", &id, &args[3]]).env("CV_REPLAY_INNER", "1").status();
                match st.ok().and_then(|s| s.code()) {
                    Some(c) if c < 128 => std::process::exit(c),
                    _ => {
                        println!("replay property=C01: the process ABORTED on this case (not a panic: stack overflow / abort)");
                        println!("VIOLATION property=C01 replay={}", args[3]);
                        std::process::exit(1);
                    }
                }
            }
            let text = std::fs::read_to_string(&args[3]).unwrap_or_else(|e| {
                eprintln!("cannot read {}: {e}", args[3]);
                std::process::exit(2)
            });
            let v: serde_json::Value = serde_json::from_str(&text).unwrap_or_else(|e| {
                eprintln!("not JSON: {e}");
                std::process::exit(2)
            });
            let sub = v["sub"].as_str().unwrap_or("").to_string();
            let mut st = Stats::new();
            let mut obs = Obs::new(&mut st);
            match props::replay(&id, &sub, &v["case"], &mut obs) {
                Ok(Verdict::Pass) => {
                    println!("replay property={id} sub={sub}: property holds on this case");
                    std::process::exit(0);
                }
                Ok(Verdict::Fail(m)) => {
                    println!("replay property={id} sub={sub}: {m}");
                    println!("VIOLATION property={id} replay={}", args[3]);
                    std::process::exit(1);
                }
                Ok(Verdict::Broken(m)) => {
                    eprintln!("replay: oracle self-check failed: {m}");
                    std::process::exit(2);
                }
                Err(e) => {
                    eprintln!("replay error: {e}");
                    std::process::exit(2);
                }
            }
        }
        _ => usage(),
    }
}
