use cv::engine::*;
use cv::props;

fn usage() -> ! {
    eprintln!("usage: cv check <ID> [quick|thorough]\n       cv replay <ID> <file>");
    std::process::exit(2);
}

fn main() {
    let args: Vec<String> = std::env::args().collect();
    if args.len() < 3 {
        usage();
    }
    install_recording_panic_hook();
    match args[1].as_str() {
        "check" => {
            let id = args[2].clone();
            let tier = match args.get(3).map(|s| s.as_str()).or(std::env::var("VERIF_TIER").ok().as_deref()) {
                Some("thorough") => Tier::Thorough,
                _ => Tier::Quick,
            };
            let seed: u64 = std::env::var("VERIF_SEED").ok().and_then(|s| s.trim().parse::<i64>().ok()).map(|v| v as u64).unwrap_or(1);
            let mut ctx = Ctx::new(&id, tier, seed);
            if !props::run(&mut ctx) {
                eprintln!("unknown property {id}");
                std::process::exit(2);
            }
            std::process::exit(ctx.finish());
        }
        "replay" => {
            if args.len() < 4 {
                usage();
            }
            let id = args[2].clone();
            let text = std::fs::read_to_string(&args[3]).unwrap_or_else(|e| {
                eprintln!("cannot read {}: {e}", args[3]);
                std::process::exit(2)
            });
            let v: serde_json::Value = serde_json::from_str(&text).unwrap_or_else(|e| {
                eprintln!("not JSON: {e}");
                std::process::exit(2)
            });
            let sub = v["sub"].as_str().unwrap_or("").to_string();
            let mut st = Stats::new();
            let mut obs = Obs::new(&mut st);
            match props::replay(&id, &sub, &v["case"], &mut obs) {
                Ok(Verdict::Pass) => {
                    println!("replay property={id} sub={sub}: property holds on this case");
                    std::process::exit(0);
                }
                Ok(Verdict::Fail(m)) => {
                    println!("replay property={id} sub={sub}: {m}");
                    println!("VIOLATION property={id} replay={}", args[3]);
                    std::process::exit(1);
                }
                Ok(Verdict::Broken(m)) => {
                    eprintln!("replay: oracle self-check failed: {m}");
                    std::process::exit(2);
                }
                Err(e) => {
                    eprintln!("replay error: {e}");
                    std::process::exit(2);
                }
            }
        }
        _ => usage(),
    }
}
