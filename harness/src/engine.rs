//! Engine: tape-driven generators, proptest driver (sharded), exhaustive helpers,
//! statistics / evidence, failures and replay files, known findings.

use proptest::strategy::{Strategy, ValueTree};
use proptest::test_runner::{Config, RngAlgorithm, RngSeed, TestCaseError, TestError, TestRunner};
use serde::de::DeserializeOwned;
use serde::Serialize;
use serde_json::{json, Value};
use std::collections::{BTreeMap, HashSet};
use std::hash::{Hash, Hasher};
use std::path::{Path, PathBuf};
use std::sync::Mutex;
use std::time::Instant;

/// Root of the verification tree. Always /verif for the registered commands; a scratch copy used for
/// mutant matrices sets CV_VERIF_DIR (tools/matrix.sh).
pub fn verif_dir() -> &'static str {
    static D: std::sync::OnceLock<String> = std::sync::OnceLock::new();
    D.get_or_init(|| std::env::var("CV_VERIF_DIR").unwrap_or_else(|_| "/verif".to_string()))
}

// ---------------------------------------------------------------------------------------------
// Entropy source
// ---------------------------------------------------------------------------------------------

/// A finite tape of 16-bit words. `below(n)` maps the next word monotonically onto `0..n`;
/// an exhausted tape yields 0, which every generator treats as its simplest choice.
pub struct Tape<'a> {
    words: &'a [u16],
    pos: usize,
}

impl<'a> Tape<'a> {
    pub fn new(words: &'a [u16]) -> Self {
        Tape { words, pos: 0 }
    }
    pub fn below(&mut self, n: usize) -> usize {
        debug_assert!(n >= 1 && n <= 65536);
        let w = if self.pos < self.words.len() {
            let w = self.words[self.pos];
            self.pos += 1;
            w
        } else {
            0
        };
        ((w as u32 as u64 * n as u64) >> 16) as usize
    }
    /// true with probability pct/100; false when the tape is exhausted.
    pub fn chance(&mut self, pct: usize) -> bool {
        self.below(100) >= 100 - pct.min(100)
    }
    pub fn pick<'b, T>(&mut self, xs: &'b [T]) -> &'b T {
        &xs[self.below(xs.len())]
    }
    /// pick a string from a pool
    pub fn s<'b>(&mut self, xs: &[&'b str]) -> &'b str {
        xs[self.below(xs.len())]
    }
    pub fn range(&mut self, lo: usize, hi_incl: usize) -> usize {
        lo + self.below(hi_incl - lo + 1)
    }
    pub fn used(&self) -> usize {
        self.pos
    }
    pub fn exhausted(&self) -> bool {
        self.pos >= self.words.len()
    }
}

// ---------------------------------------------------------------------------------------------
// Verdicts, statistics
// ---------------------------------------------------------------------------------------------

#[derive(Debug, Clone)]
pub enum Verdict {
    Pass,
    Fail(String),
    /// the harness itself is inconsistent (oracle self-check failed): reported as inconclusive, never as a violation
    Broken(String),
}

impl Verdict {
    pub fn fail<S: Into<String>>(s: S) -> Verdict {
        Verdict::Fail(s.into())
    }
    pub fn is_fail(&self) -> bool {
        matches!(self, Verdict::Fail(_))
    }
    pub fn is_pass(&self) -> bool {
        matches!(self, Verdict::Pass)
    }
}

#[macro_export]
macro_rules! vfail {
    ($($arg:tt)*) => { return $crate::engine::Verdict::Fail(format!($($arg)*)) };
}

#[derive(Default, Clone)]
pub struct Stats {
    pub evaluations: u64,
    pub nontrivial: HashSet<u64>,
    /// non-trivial cases that are distinct by construction (exhaustive enumerations), not hashed
    pub counted: u64,
    pub classes: BTreeMap<String, u64>,
    pub excluded: BTreeMap<String, u64>,
    pub maxima: BTreeMap<String, u64>,
    pub samples: Vec<Value>,
    pub sample_cap: usize,
}

impl Stats {
    pub fn new() -> Self {
        Stats { sample_cap: 4, ..Default::default() }
    }
    pub fn merge(&mut self, o: Stats) {
        self.evaluations += o.evaluations;
        self.nontrivial.extend(o.nontrivial);
        self.counted += o.counted;
        for (k, v) in o.classes {
            *self.classes.entry(k).or_default() += v;
        }
        for (k, v) in o.excluded {
            *self.excluded.entry(k).or_default() += v;
        }
        for (k, v) in o.maxima {
            let e = self.maxima.entry(k).or_default();
            *e = (*e).max(v);
        }
        for s in o.samples {
            if self.samples.len() < self.sample_cap.max(4) {
                self.samples.push(s);
            }
        }
    }
}

/// Observer handed to oracles. When `frozen` (during shrinking / replay) nothing is counted.
pub struct Obs<'a> {
    pub st: &'a mut Stats,
    pub frozen: bool,
}

impl<'a> Obs<'a> {
    pub fn new(st: &'a mut Stats) -> Self {
        Obs { st, frozen: false }
    }
    pub fn eval(&mut self) {
        if !self.frozen {
            self.st.evaluations += 1;
        }
    }
    pub fn evals(&mut self, n: u64) {
        if !self.frozen {
            self.st.evaluations += n;
        }
    }
    pub fn class(&mut self, name: &str) {
        if !self.frozen {
            *self.st.classes.entry(name.to_string()).or_default() += 1;
        }
    }
    pub fn excluded(&mut self, name: &str) {
        if !self.frozen {
            *self.st.excluded.entry(name.to_string()).or_default() += 1;
        }
    }
    pub fn max(&mut self, name: &str, v: u64) {
        if !self.frozen {
            let e = self.st.maxima.entry(name.to_string()).or_default();
            *e = (*e).max(v);
        }
    }
    /// Records a non-trivial case (distinct by hash of `key`); `sample` is only rendered for the first few.
    pub fn nontrivial<K: Hash, F: FnOnce() -> Value>(&mut self, key: &K, sample: F) {
        if self.frozen {
            return;
        }
        let h = hash_of(key);
        if self.st.nontrivial.insert(h) && self.st.samples.len() < self.st.sample_cap {
            self.st.samples.push(sample());
        }
    }
}

impl<'a> Obs<'a> {
    /// Non-trivial case of an exhaustive enumeration (distinct by construction; counted, not hashed).
    pub fn nontrivial_counted<F: FnOnce() -> Value>(&mut self, sample: F) {
        if self.frozen {
            return;
        }
        self.st.counted += 1;
        if self.st.samples.len() < self.st.sample_cap {
            self.st.samples.push(sample());
        }
    }
}

pub fn hash_of<K: Hash>(k: &K) -> u64 {
    let mut h = std::collections::hash_map::DefaultHasher::new();
    k.hash(&mut h);
    h.finish()
}

// ---------------------------------------------------------------------------------------------
// Failures and replay files
// ---------------------------------------------------------------------------------------------

#[derive(Debug, Clone)]
pub struct Failure {
    pub broken: bool,
    pub sub: String,
    pub case: Value,
    pub tape: Option<Vec<u16>>,
    pub message: String,
}

#[derive(Copy, Clone, PartialEq, Eq, Debug)]
pub enum Tier {
    Quick,
    Thorough,
}

impl Tier {
    pub fn name(self) -> &'static str {
        match self {
            Tier::Quick => "quick",
            Tier::Thorough => "thorough",
        }
    }
    pub fn pick<T>(self, quick: T, thorough: T) -> T {
        match self {
            Tier::Quick => quick,
            Tier::Thorough => thorough,
        }
    }
}

pub fn threads() -> usize {
    std::env::var("VERIF_THREADS")
        .ok()
        .and_then(|s| s.parse().ok())
        .unwrap_or_else(|| std::thread::available_parallelism().map(|n| n.get()).unwrap_or(8))
        .clamp(1, 64)
}

/// Scale factor for case counts (debugging aid; default 1.0).
pub fn scale() -> f64 {
    std::env::var("VERIF_SCALE").ok().and_then(|s| s.parse().ok()).unwrap_or(1.0)
}

// ---------------------------------------------------------------------------------------------
// Context of one property check run
// ---------------------------------------------------------------------------------------------

pub struct Known {
    pub property: String,
    pub id: String,
    pub signature: String,
    pub what: String,
}

pub struct Ctx {
    pub property: String,
    pub tier: Tier,
    pub seed: u64,
    pub stats: Stats,
    pub start: Instant,
    pub failure: Option<Failure>,
    pub rule: String,
    pub assumptions: Vec<String>,
    pub exhaustive_subspaces: Vec<Value>,
    pub subs_run: Vec<Value>,
    pub known: Vec<Known>,
    pub known_printed: Vec<String>,
    pub extra: BTreeMap<String, Value>,
    pub inconclusive: Option<String>,
    pub all_exhaustive: bool,
    /// classes that must have been produced at least once (generator health); checked in finish()
    pub required_classes: Vec<String>,
    /// shrink budget of the random driver (lower it for expensive oracles such as process runs)
    pub max_shrink_iters: u32,
}

impl Ctx {
    pub fn new(property: &str, tier: Tier, seed: u64) -> Ctx {
        let mut st = Stats::new();
        st.sample_cap = 6;
        Ctx {
            property: property.to_string(),
            tier,
            seed,
            stats: st,
            start: Instant::now(),
            failure: None,
            rule: String::new(),
            assumptions: vec![],
            exhaustive_subspaces: vec![],
            subs_run: vec![],
            known: load_known(property),
            known_printed: vec![],
            extra: BTreeMap::new(),
            inconclusive: None,
            all_exhaustive: false,
            required_classes: vec![],
            max_shrink_iters: 40_000,
        }
    }

    pub fn failed(&self) -> bool {
        self.failure.is_some() || self.inconclusive.is_some()
    }

    /// true if the signature is listed as `known:` for this property (cases matching it are excluded).
    pub fn is_known(&self, signature: &str) -> bool {
        self.known.iter().any(|k| k.signature == signature)
    }

    pub fn require_class(&mut self, name: &str) {
        self.required_classes.push(name.to_string());
    }

    pub fn assume(&mut self, s: &str) {
        self.assumptions.push(s.to_string());
    }

    /// Replay every committed corpus file of this property (regressions, goldens).
    pub fn replay_corpus<F>(&mut self, replay: F)
    where
        F: Fn(&str, &Value, &mut Obs) -> Result<Verdict, String>,
    {
        if self.failed() {
            return;
        }
        let dir = Path::new(verif_dir()).join("corpus").join(&self.property);
        let mut files: Vec<PathBuf> = match std::fs::read_dir(&dir) {
            Ok(rd) => rd.filter_map(|e| e.ok()).map(|e| e.path()).filter(|p| p.extension().map(|e| e == "json").unwrap_or(false)).collect(),
            Err(_) => vec![],
        };
        files.sort();
        let mut n = 0u64;
        for f in files {
            let text = match std::fs::read_to_string(&f) {
                Ok(t) => t,
                Err(e) => {
                    self.inconclusive = Some(format!("cannot read corpus file {}: {e}", f.display()));
                    return;
                }
            };
            let v: Value = match serde_json::from_str(&text) {
                Ok(v) => v,
                Err(e) => {
                    self.inconclusive = Some(format!("corpus file {} is not JSON: {e}", f.display()));
                    return;
                }
            };
            let sub = v["sub"].as_str().unwrap_or("").to_string();
            let mut st = Stats::new();
            let verdict = {
                let mut obs = Obs::new(&mut st);
                replay(&sub, &v["case"], &mut obs)
            };
            n += 1;
            match verdict {
                Err(e) => {
                    self.inconclusive = Some(format!("corpus file {}: {e}", f.display()));
                    return;
                }
                Ok(Verdict::Pass) => {
                    self.stats.merge(st);
                }
                Ok(Verdict::Fail(msg)) => {
                    self.stats.merge(st);
                    self.stats.evaluations = self.stats.evaluations.max(1);
                    self.failure = Some(Failure { broken: false, sub, case: v["case"].clone(), tape: None, message: format!("{msg} [corpus file {}]", f.display()) });
                    return;
                }
                Ok(Verdict::Broken(msg)) => {
                    self.inconclusive = Some(format!("oracle self-check failed on corpus file {}: {msg}", f.display()));
                    return;
                }
            }
        }
        self.subs_run.push(json!({"sub": "corpus-replay", "files": n}));
    }

    /// Run the stored witness of each known finding; print KNOWN-FINDING when it still fails.
    pub fn run_known_witnesses<F>(&mut self, replay: F)
    where
        F: Fn(&str, &Value, &mut Obs) -> Result<Verdict, String>,
    {
        for k in &self.known {
            let p = Path::new(verif_dir()).join("known").join(format!("{}-{}.json", k.property, k.id));
            let Ok(text) = std::fs::read_to_string(&p) else {
                self.inconclusive = Some(format!("known finding {} has no witness file {}", k.id, p.display()));
                return;
            };
            let Ok(v) = serde_json::from_str::<Value>(&text) else {
                self.inconclusive = Some(format!("witness file {} is not JSON", p.display()));
                return;
            };
            let sub = v["sub"].as_str().unwrap_or("").to_string();
            let mut st = Stats::new();
            let mut obs = Obs::new(&mut st);
            obs.frozen = true;
            match replay(&sub, &v["case"], &mut obs) {
                Ok(Verdict::Fail(_)) => {
                    let line = format!("KNOWN-FINDING: property={} {} ({}; signature={})", k.property, k.what, k.id, k.signature);
                    println!("{line}");
                    self.known_printed.push(line);
                }
                Ok(Verdict::Pass) => {}
                Ok(Verdict::Broken(m)) => {
                    self.inconclusive = Some(format!("witness file {}: oracle self-check failed: {m}", p.display()));
                    return;
                }
                Err(e) => {
                    self.inconclusive = Some(format!("witness file {}: {e}", p.display()));
                    return;
                }
            }
        }
    }

    /// Random (proptest-driven) sub-check over S shards.
    pub fn random<C, G, O>(&mut self, sub: &str, tape_len: usize, cases_quick: u64, cases_thorough: u64, gen: G, oracle: O)
    where
        C: Serialize + Send,
        G: Fn(&mut Tape) -> C + Sync,
        O: Fn(&C, &mut Obs) -> Verdict + Sync,
    {
        if self.failed() {
            return;
        }
        let total = (self.tier.pick(cases_quick, cases_thorough) as f64 * scale()).max(1.0) as u64;
        let shards = threads().min(total as usize).max(1);
        let per = (total + shards as u64 - 1) / shards as u64;
        let t0 = Instant::now();
        let results: Mutex<Vec<(usize, Stats, Option<Failure>)>> = Mutex::new(vec![]);
        std::thread::scope(|s| {
            for shard in 0..shards {
                let gen = &gen;
                let oracle = &oracle;
                let results = &results;
                let seed = self.seed;
                let property = self.property.clone();
                let msi = self.max_shrink_iters;
                std::thread::Builder::new()
                    .stack_size(64 << 20)
                    .spawn_scoped(s, move || {
                        let r = run_shard(&property, sub, seed, shard as u64, per, tape_len, msi, gen, oracle);
                        results.lock().unwrap().push((shard, r.0, r.1));
                    })
                    .unwrap();
            }
        });
        let mut rs = results.into_inner().unwrap();
        rs.sort_by_key(|r| r.0);
        let mut evals = 0;
        for (_, st, f) in rs {
            evals += st.evaluations;
            self.stats.merge(st);
            if self.failure.is_none() {
                if let Some(f) = f {
                    self.failure = Some(f);
                }
            }
        }
        self.subs_run.push(json!({"sub": sub, "kind": "random", "cases": per * shards as u64, "shards": shards, "evaluations": evals, "tape_len": tape_len, "wall_s": t0.elapsed().as_secs_f64()}));
    }

    /// Exhaustive sub-check: `items` are work units (e.g. prefixes) processed in parallel; `f` enumerates a unit.
    pub fn exhaustive<W, F>(&mut self, sub: &str, description: &str, units: Vec<W>, f: F)
    where
        W: Send + Sync,
        F: Fn(&W, &mut Obs) -> Option<Failure> + Sync,
    {
        if self.failed() {
            return;
        }
        let t0 = Instant::now();
        let n_units = units.len();
        let next = std::sync::atomic::AtomicUsize::new(0);
        let results: Mutex<Vec<(usize, Stats, Option<Failure>)>> = Mutex::new(vec![]);
        let nthreads = threads().min(n_units.max(1));
        std::thread::scope(|s| {
            for _ in 0..nthreads {
                let units = &units;
                let next = &next;
                let f = &f;
                let results = &results;
                std::thread::Builder::new()
                    .stack_size(64 << 20)
                    .spawn_scoped(s, move || loop {
                        let i = next.fetch_add(1, std::sync::atomic::Ordering::SeqCst);
                        if i >= units.len() {
                            break;
                        }
                        let mut st = Stats::new();
                        let fail = {
                            let mut obs = Obs::new(&mut st);
                            f(&units[i], &mut obs)
                        };
                        results.lock().unwrap().push((i, st, fail));
                    })
                    .unwrap();
            }
        });
        let mut rs = results.into_inner().unwrap();
        rs.sort_by_key(|r| r.0);
        let mut evals = 0;
        for (_, st, fl) in rs {
            evals += st.evaluations;
            self.stats.merge(st);
            if self.failure.is_none() {
                if let Some(mut fl) = fl {
                    if fl.sub.is_empty() {
                        fl.sub = sub.to_string();
                    }
                    self.failure = Some(fl);
                }
            }
        }
        self.exhaustive_subspaces.push(json!({"sub": sub, "space": description, "evaluations": evals, "units": n_units, "wall_s": t0.elapsed().as_secs_f64()}));
    }

    /// Finish: write evidence, print summary / VIOLATION, return the process exit code.
    pub fn finish(mut self) -> i32 {
        let wall = self.start.elapsed().as_secs_f64();
        if let Some(why) = &self.inconclusive {
            eprintln!("INCONCLUSIVE property={} : {}", self.property, why);
            return 2;
        }
        if let Some(f) = &self.failure {
            if f.broken {
                eprintln!("INCONCLUSIVE property={} : oracle self-check failed in sub-check {}: {}\ncase: {}", self.property, f.sub, f.message, f.case);
                return 2;
            }
        }
        if self.failure.is_none() && scale() >= 1.0 {
            for c in &self.required_classes {
                if self.stats.classes.get(c).copied().unwrap_or(0) == 0 {
                    eprintln!("INCONCLUSIVE property={} : generator health check failed: class {:?} was never produced", self.property, c);
                    return 2;
                }
            }
        }
        let mut replay_path = None;
        if let Some(f) = &self.failure {
            let dir = Path::new(verif_dir()).join("evidence").join("replays");
            let _ = std::fs::create_dir_all(&dir);
            let body = json!({"property": self.property, "sub": f.sub, "message": f.message, "case": f.case, "tape": f.tape, "seed": self.seed, "tier": self.tier.name()});
            let h = hash_of(&serde_json::to_string(&f.case).unwrap_or_default());
            let p = dir.join(format!("{}-{}-{:016x}.json", self.property, sanitize(&f.sub), h));
            if let Err(e) = std::fs::write(&p, serde_json::to_string_pretty(&body).unwrap()) {
                eprintln!("cannot write replay file {}: {e}", p.display());
                return 2;
            }
            replay_path = Some(p);
        }
        let nontrivial = self.stats.nontrivial.len() as u64 + self.stats.counted;
        if self.stats.samples.is_empty() {
            self.stats.samples.push(json!("(no non-trivial case was generated)"));
        }
        let mut coverage = json!({
            "evaluations": self.stats.evaluations,
            "distinct_nontrivial": nontrivial,
            "rule": self.rule,
            "samples": self.stats.samples,
            "classes": self.stats.classes,
            "excluded": self.stats.excluded,
            "maxima": self.stats.maxima,
            "exhaustive_subspaces": self.exhaustive_subspaces,
            "sub_checks": self.subs_run,
            "known_findings_reported": self.known_printed,
            "exhaustive": self.all_exhaustive,
        });
        for (k, v) in &self.extra {
            coverage[k] = v.clone();
        }
        let ev = json!({
            "property_id": self.property,
            "tier": self.tier.name(),
            "seed": self.seed,
            "level": "exploration",
            "coverage": coverage,
            "assumptions": self.assumptions,
            "wall_s": wall,
            "violations": if self.failure.is_some() { 1 } else { 0 },
            "violation": self.failure.as_ref().map(|f| json!({"sub": f.sub, "message": f.message, "replay": replay_path.as_ref().map(|p| p.display().to_string())})),
        });
        let evdir = Path::new(verif_dir()).join("evidence");
        let _ = std::fs::create_dir_all(&evdir);
        let evp = evdir.join(format!("{}.json", self.property));
        if let Err(e) = std::fs::write(&evp, serde_json::to_string_pretty(&ev).unwrap()) {
            eprintln!("cannot write evidence {}: {e}", evp.display());
            return 2;
        }
        println!(
            "property={} tier={} seed={} evaluations={} distinct_nontrivial={} wall_s={:.1}",
            self.property,
            self.tier.name(),
            self.seed,
            self.stats.evaluations,
            nontrivial,
            wall
        );
        if let (Some(f), Some(p)) = (&self.failure, &replay_path) {
            println!("violation in sub-check {}: {}", f.sub, truncate(&f.message, 2000));
            println!("VIOLATION property={} replay={}", self.property, p.display());
            return 1;
        }
        0
    }
}

fn sanitize(s: &str) -> String {
    s.chars().map(|c| if c.is_ascii_alphanumeric() || c == '-' || c == '_' { c } else { '_' }).collect()
}

pub fn truncate(s: &str, n: usize) -> String {
    if s.len() <= n {
        s.to_string()
    } else {
        let mut e = n;
        while !s.is_char_boundary(e) {
            e -= 1;
        }
        format!("{}…", &s[..e])
    }
}

fn shard_seed(property: &str, sub: &str, seed: u64, shard: u64) -> [u8; 32] {
    let mut out = [0u8; 32];
    for i in 0..4u64 {
        let h = hash_of(&(property, sub, seed, shard, i, 0x9E37_79B9_7F4A_7C15u64));
        out[(i as usize) * 8..(i as usize + 1) * 8].copy_from_slice(&h.to_le_bytes());
    }
    out
}

fn run_shard<C, G, O>(property: &str, sub: &str, seed: u64, shard: u64, cases: u64, tape_len: usize, max_shrink_iters: u32, gen: &G, oracle: &O) -> (Stats, Option<Failure>)
where
    C: Serialize,
    G: Fn(&mut Tape) -> C,
    O: Fn(&C, &mut Obs) -> Verdict,
{
    let cfg = Config {
        cases: cases.min(u32::MAX as u64) as u32,
        failure_persistence: None,
        rng_seed: RngSeed::Fixed(0),
        max_shrink_iters,
        max_global_rejects: 0,
        ..Config::default()
    };
    let _ = RngSeed::Fixed(0);
    let rng = proptest::test_runner::TestRng::from_seed(RngAlgorithm::ChaCha, &shard_seed(property, sub, seed, shard));
    let mut runner = TestRunner::new_with_rng(cfg, rng);
    let strategy = proptest::collection::vec(proptest::num::u16::ANY, 0..=tape_len);
    let st_cell = std::cell::RefCell::new(Stats::new());
    let frozen = std::cell::Cell::new(false);
    let result = runner.run(&strategy, |tape| {
        let mut t = Tape::new(&tape);
        let case = gen(&mut t);
        let mut guard = st_cell.borrow_mut();
        let mut obs = Obs { st: &mut guard, frozen: frozen.get() };
        obs.eval();
        let v = std::panic::catch_unwind(std::panic::AssertUnwindSafe(|| oracle(&case, &mut obs)));
        match v {
            Ok(Verdict::Pass) => Ok(()),
            Ok(Verdict::Fail(m)) => {
                frozen.set(true);
                Err(TestCaseError::fail(m))
            }
            Ok(Verdict::Broken(m)) => {
                frozen.set(true);
                Err(TestCaseError::fail(format!("BROKEN-ORACLE: {m}")))
            }
            Err(p) => {
                frozen.set(true);
                Err(TestCaseError::fail(format!("harness oracle panicked: {}", panic_message(&p))))
            }
        }
    });
    let st = st_cell.into_inner();
    match result {
        Ok(()) => (st, None),
        Err(TestError::Fail(reason, tape)) => {
            let mut t = Tape::new(&tape);
            let case = gen(&mut t);
            // re-run on the minimal case to get its own message
            let mut scratch = Stats::new();
            let mut obs = Obs { st: &mut scratch, frozen: true };
            let mut broken = false;
            let msg = match std::panic::catch_unwind(std::panic::AssertUnwindSafe(|| oracle(&case, &mut obs))) {
                Ok(Verdict::Fail(m)) => m,
                Ok(Verdict::Broken(m)) => {
                    broken = true;
                    m
                }
                Ok(Verdict::Pass) => format!("{reason} (not reproduced on re-run of the minimal tape!)"),
                Err(p) => format!("harness oracle panicked: {}", panic_message(&p)),
            };
            let f = Failure { broken, sub: sub.to_string(), case: serde_json::to_value(&case).unwrap_or(Value::Null), tape: Some(tape), message: msg };
            (st, Some(f))
        }
        Err(TestError::Abort(reason)) => {
            let f = Failure { broken: false, sub: sub.to_string(), case: Value::Null, tape: None, message: format!("proptest aborted: {reason}") };
            (st, Some(f))
        }
    }
}

pub fn panic_message(p: &Box<dyn std::any::Any + Send>) -> String {
    if let Some(s) = p.downcast_ref::<&str>() {
        s.to_string()
    } else if let Some(s) = p.downcast_ref::<String>() {
        s.clone()
    } else {
        "<non-string panic>".to_string()
    }
}

/// Helper for replay dispatch: deserialize the case and run the oracle.
pub fn replay_case<C: DeserializeOwned, O: Fn(&C, &mut Obs) -> Verdict>(case: &Value, obs: &mut Obs, oracle: O) -> Result<Verdict, String> {
    let c: C = serde_json::from_value(case.clone()).map_err(|e| format!("case does not deserialize: {e}"))?;
    match std::panic::catch_unwind(std::panic::AssertUnwindSafe(|| oracle(&c, obs))) {
        Ok(v) => Ok(v),
        Err(p) => Ok(Verdict::Fail(format!("harness oracle panicked: {}", panic_message(&p)))),
    }
}

/// Shrink helper used by exhaustive sub-checks is unnecessary (they enumerate smallest first).
pub fn fail_case<C: Serialize>(sub: &str, case: &C, message: String) -> Failure {
    Failure { broken: false, sub: sub.to_string(), case: serde_json::to_value(case).unwrap_or(Value::Null), tape: None, message }
}

// ---------------------------------------------------------------------------------------------
// Known findings
// ---------------------------------------------------------------------------------------------

/// Parses /verif/KNOWN_FINDINGS.txt: lines
/// `known: property=<ID> id=<KFn> signature=<name> :: <what fails>`
/// `fixed: property=<ID> <commit> <what failed>`   (suppresses nothing)
pub fn load_known(property: &str) -> Vec<Known> {
    let p = Path::new(verif_dir()).join("KNOWN_FINDINGS.txt");
    let Ok(text) = std::fs::read_to_string(p) else { return vec![] };
    let mut out = vec![];
    for line in text.lines() {
        let line = line.trim();
        let Some(rest) = line.strip_prefix("known:") else { continue };
        let (head, what) = match rest.split_once("::") {
            Some((h, w)) => (h, w.trim().to_string()),
            None => (rest, String::new()),
        };
        let mut prop = String::new();
        let mut id = String::new();
        let mut sig = String::new();
        for tok in head.split_whitespace() {
            if let Some(v) = tok.strip_prefix("property=") {
                prop = v.to_string();
            } else if let Some(v) = tok.strip_prefix("id=") {
                id = v.to_string();
            } else if let Some(v) = tok.strip_prefix("signature=") {
                sig = v.to_string();
            }
        }
        if prop == property {
            out.push(Known { property: prop, id, signature: sig, what });
        }
    }
    out
}

// A silent panic hook: chiritori panics are caught and classified by the oracles.
pub fn install_quiet_panic_hook() {
    std::panic::set_hook(Box::new(|_| {}));
}

thread_local! {
    pub static LAST_PANIC_LOC: std::cell::RefCell<String> = std::cell::RefCell::new(String::new());
}

/// Hook that remembers the panic location (file:line) per thread, prints nothing.
pub fn install_recording_panic_hook() {
    std::panic::set_hook(Box::new(|info| {
        let loc = info.location().map(|l| format!("{}:{}", l.file().rsplit('/').next().unwrap_or(""), l.line())).unwrap_or_default();
        let msg = if let Some(s) = info.payload().downcast_ref::<&str>() {
            s.to_string()
        } else if let Some(s) = info.payload().downcast_ref::<String>() {
            s.clone()
        } else {
            String::new()
        };
        LAST_PANIC_LOC.with(|l| *l.borrow_mut() = format!("{} at {}", truncate(&msg, 120), loc));
    }));
}

pub fn last_panic() -> String {
    LAST_PANIC_LOC.with(|l| l.borrow().clone())
}

// Keep the ValueTree/Strategy imports used (tape-level helpers may use them later).
#[allow(dead_code)]
fn _unused<S: Strategy>(s: &S, r: &mut TestRunner) -> Option<S::Value> {
    s.new_tree(r).ok().map(|t| t.current())
}

/// Delta-debugging over the characters of a text: returns a (locally) minimal text on which
/// `fails` is still true. `fails(original)` is assumed true.
pub fn minimize_text<F: Fn(&str) -> bool>(s: &str, fails: F) -> String {
    let mut cur: Vec<char> = s.chars().collect();
    let mut chunk = (cur.len() / 2).max(1);
    let mut budget = 4000usize;
    loop {
        let mut progressed = false;
        let mut i = 0;
        while i < cur.len() && budget > 0 {
            let end = (i + chunk).min(cur.len());
            let cand: String = cur[..i].iter().chain(cur[end..].iter()).collect();
            budget -= 1;
            if fails(&cand) {
                cur.drain(i..end);
                progressed = true;
            } else {
                i += chunk;
            }
        }
        if budget == 0 {
            break;
        }
        if chunk == 1 {
            if !progressed {
                break;
            }
        } else {
            chunk = (chunk / 2).max(1);
        }
    }
    cur.into_iter().collect()
}

/// Delta-debugging over the elements of a vector (same contract as `minimize_text`).
pub fn minimize_vec<T: Clone, F: Fn(&[T]) -> bool>(v: &[T], fails: F) -> Vec<T> {
    let mut cur: Vec<T> = v.to_vec();
    let mut chunk = (cur.len() / 2).max(1);
    let mut budget = 4000usize;
    loop {
        let mut progressed = false;
        let mut i = 0;
        while i < cur.len() && budget > 0 {
            let end = (i + chunk).min(cur.len());
            let cand: Vec<T> = cur[..i].iter().chain(cur[end..].iter()).cloned().collect();
            budget -= 1;
            if fails(&cand) {
                cur = cand;
                progressed = true;
            } else {
                i += chunk;
            }
        }
        if budget == 0 {
            break;
        }
        if chunk == 1 {
            if !progressed {
                break;
            }
        } else {
            chunk = (chunk / 2).max(1);
        }
    }
    cur
}

// ---------------------------------------------------------------------------------------------
// Coverage-guided tier (libFuzzer via cargo-fuzz), thorough only
// ---------------------------------------------------------------------------------------------



impl Ctx {
    /// Run a libFuzzer campaign of `runs` executions per worker on `workers` workers with the semantic
    /// oracle inside the target. `decode` re-checks a crash artifact in this process.
    pub fn fuzz_campaign<D>(&mut self, target: &str, runs: u64, max_len: usize, seeds: Vec<Vec<u8>>, decode: D)
    where
        D: Fn(&[u8]) -> Option<(String, Value, String)>,
    {
        if self.failed() {
            return;
        }
        let t0 = Instant::now();
        let bin_name = format!("fz_{target}");
        // build (recompiles chiritori from /repo's working tree through the path dependency)
        let build = std::process::Command::new("cargo")
            .args(["+nightly", "fuzz", "build", "--fuzz-dir", &format!("{}/fuzz", verif_dir()), "--target-dir", &format!("{}/.build/fuzz", verif_dir()), &bin_name])
            .env("CARGO_NET_OFFLINE", "true")
            .current_dir(verif_dir())
            .output();
        let ok = matches!(&build, Ok(o) if o.status.success());
        if !ok {
            let msg = match build {
                Ok(o) => String::from_utf8_lossy(&o.stderr).lines().rev().take(15).collect::<Vec<_>>().join(" | "),
                Err(e) => e.to_string(),
            };
            self.inconclusive = Some(format!("cargo fuzz build failed: {}", truncate(&msg, 1500)));
            return;
        }
        let bin = format!("{}/.build/fuzz/x86_64-unknown-linux-gnu/release/{bin_name}", verif_dir());
        if !Path::new(&bin).exists() {
            self.inconclusive = Some(format!("fuzz binary {bin} not found after build"));
            return;
        }
        let workers = (threads() / 2).clamp(1, 8);
        let base = PathBuf::from(format!("{}/.build/fuzz-run/{}-{}-{}", verif_dir(), self.property, target, std::process::id()));
        let _ = std::fs::remove_dir_all(&base);
        let mut children = vec![];
        for w in 0..workers {
            let dir = base.join(format!("w{w}"));
            let corpus = dir.join("corpus");
            let _ = std::fs::create_dir_all(&corpus);
            // half of the workers start from the seed corpus, the others from an empty one
            if w % 2 == 0 {
                for (i, s) in seeds.iter().enumerate() {
                    let _ = std::fs::write(corpus.join(format!("seed{i:04}")), s);
                }
            }
            let seed = (self.seed.wrapping_mul(1000).wrapping_add(w as u64) % 4_000_000_000).max(1);
            let child = std::process::Command::new(&bin)
                .arg(&corpus)
                .args([format!("-runs={runs}"), format!("-seed={seed}"), format!("-max_len={max_len}"), "-len_control=0".to_string(), "-timeout=60".to_string(), "-print_final_stats=1".to_string(), format!("-artifact_prefix={}/", dir.display())])
                .env("CV_FUZZ_WHICH", &self.property)
                .env_remove("RUST_BACKTRACE")
                .stdout(std::process::Stdio::null())
                .stderr(std::process::Stdio::piped())
                .spawn();
            match child {
                Ok(c) => children.push((w, dir, c)),
                Err(e) => {
                    self.inconclusive = Some(format!("cannot start {bin}: {e}"));
                    return;
                }
            }
        }
        let mut total_execs = 0u64;
        let mut max_cov = 0u64;
        let mut corpus_units = 0u64;
        let mut crashed: Vec<(PathBuf, String)> = vec![];
        for (_w, dir, c) in children {
            let out = match c.wait_with_output() {
                Ok(o) => o,
                Err(e) => {
                    self.inconclusive = Some(format!("waiting for the fuzzer failed: {e}"));
                    return;
                }
            };
            let log = String::from_utf8_lossy(&out.stderr).to_string();
            for line in log.lines() {
                if let Some(v) = line.strip_prefix("stat::number_of_executed_units:") {
                    total_execs += v.trim().parse::<u64>().unwrap_or(0);
                }
                if line.contains(" cov: ") {
                    if let Some(p) = line.find(" cov: ") {
                        let v: String = line[p + 6..].chars().take_while(|c| c.is_ascii_digit()).collect();
                        max_cov = max_cov.max(v.parse().unwrap_or(0));
                    }
                    if let Some(p) = line.find(" corp: ") {
                        let v: String = line[p + 7..].chars().take_while(|c| c.is_ascii_digit()).collect();
                        corpus_units = corpus_units.max(v.parse().unwrap_or(0));
                    }
                }
            }
            if !out.status.success() {
                crashed.push((dir, log));
            }
        }
        self.stats.evaluations += total_execs;
        self.subs_run.push(json!({"sub": format!("libfuzzer:{bin_name}"), "kind": "coverage-guided", "workers": workers, "runs_per_worker": runs, "executions": total_execs, "max_len": max_len, "seed_inputs": seeds.len(), "edge_coverage": max_cov, "corpus_units": corpus_units, "wall_s": t0.elapsed().as_secs_f64()}));
        self.extra.insert("fuzz".into(), json!({"target": bin_name, "executions": total_execs, "edge_coverage": max_cov, "corpus_units": corpus_units}));
        for (dir, log) in crashed {
            let mut arts: Vec<PathBuf> = std::fs::read_dir(&dir).map(|rd| rd.filter_map(|e| e.ok()).map(|e| e.path()).filter(|p| p.file_name().map(|n| { let n = n.to_string_lossy(); n.starts_with("crash-") || n.starts_with("timeout-") || n.starts_with("oom-") }).unwrap_or(false)).collect()).unwrap_or_default();
            arts.sort();
            for a in &arts {
                if let Ok(data) = std::fs::read(a) {
                    if let Some((sub, case, msg)) = decode(&data) {
                        self.failure = Some(Failure { broken: false, sub, case, tape: None, message: format!("{msg} [found by libFuzzer target {bin_name}]") });
                        let _ = std::fs::remove_dir_all(&base);
                        return;
                    }
                }
            }
            let tail: Vec<&str> = log.lines().rev().take(12).collect();
            self.inconclusive = Some(format!("fuzz worker in {} stopped abnormally but no artifact reproduces an oracle violation (timeout / out of memory / abort?): {}", dir.display(), tail.into_iter().rev().collect::<Vec<_>>().join(" | ")));
            return;
        }
        let _ = std::fs::remove_dir_all(&base);
    }
}

/// Seed inputs from the repository's own fixtures and samples (if present).
pub fn repo_seed_texts() -> Vec<String> {
    let mut v = vec![];
    for dir in ["/repo/chiritori/src/integration-test-fixtures", "/repo/samples"] {
        if let Ok(rd) = std::fs::read_dir(dir) {
            let mut files: Vec<PathBuf> = rd.filter_map(|e| e.ok()).map(|e| e.path()).collect();
            files.sort();
            for f in files {
                if let Ok(t) = std::fs::read_to_string(&f) {
                    if t.len() < 6000 {
                        v.push(t);
                    }
                }
            }
        }
    }
    v
}


impl Ctx {
    /// Second shrinking pass for a failure of sub-check `sub`: `shrink` maps the failing case to a smaller
    /// failing case (it is given a predicate that re-runs the oracle quietly).
    pub fn reshrink<C, O, S>(&mut self, sub: &str, oracle: O, shrink: S)
    where
        C: Serialize + DeserializeOwned,
        O: Fn(&C, &mut Obs) -> Verdict,
        S: Fn(&C, &dyn Fn(&C) -> bool) -> C,
    {
        let Some(f) = &self.failure else { return };
        if f.sub != sub || f.broken {
            return;
        }
        let Ok(case) = serde_json::from_value::<C>(f.case.clone()) else { return };
        let quiet = |c: &C| -> Verdict {
            let mut st = Stats::new();
            let mut o = Obs { st: &mut st, frozen: true };
            match std::panic::catch_unwind(std::panic::AssertUnwindSafe(|| oracle(c, &mut o))) {
                Ok(v) => v,
                Err(_) => Verdict::Pass,
            }
        };
        if !quiet(&case).is_fail() {
            return;
        }
        let small = shrink(&case, &|c: &C| quiet(c).is_fail());
        if let Verdict::Fail(m) = quiet(&small) {
            let tape = None;
            self.failure = Some(Failure { broken: false, sub: sub.to_string(), case: serde_json::to_value(&small).unwrap_or(Value::Null), tape, message: m });
        }
    }
}
