//! Junk and mutated documents: random atom soups and edited AST documents, with configurations.

use crate::astgen::{self, Opts};
use crate::engine::Tape;
use crate::pools::REGULAR_DELIMS;
use crate::refmodel::{MALFORMED_OFFSET, MALFORMED_TO};
use crate::util::{epoch, Cfg};
use serde::{Deserialize, Serialize};

#[derive(Serialize, Deserialize, Clone, Hash, Debug)]
pub struct JunkCase {
    pub src: String,
    pub cfg: Cfg,
}

pub const JUNK_DELIMS: &[(&str, &str)] = &[("<", ">"), ("<!-- <", "> -->"), ("/* <", "> */"), ("[[", "]]"), ("「", "」"), ("<!--", "-->"), ("// --", "-- //"), ("|", "|"), ("aab", "bba"), ("{%", "%}")];

pub fn gen_cfg(t: &mut Tape, ds: &str, de: &str, allow_bad_offset: bool) -> Cfg {
    let now = [epoch(2000, 6, 1, 0, 0, 0), epoch(2024, 6, 1, 0, 0, 0), epoch(2020, 1, 1, 0, 0, 0), epoch(2019, 12, 31, 23, 59, 59), epoch(3000, 1, 1, 0, 0, 0)][t.below(5)];
    let offset = if allow_bad_offset && t.chance(10) { t.s(MALFORMED_OFFSET).to_string() } else { t.s(&["+00:00", "+0000", "+09:00", "-0800", "-00:00", "+14:00", "-12:00", "+05:45"]).to_string() };
    let targets: Vec<String> = match t.below(8) {
        0 => vec![],
        1 => vec!["a".into()],
        2 => vec!["a".into(), "b".into()],
        3 => vec!["b".into()],
        4 => vec!["A".into(), "".into()],
        5 => vec!["a".into(), "ab".into(), "feature1".into()],
        6 => vec!["skip".into(), "unwrap-block".into()],
        _ => vec!["a".into(), "b".into(), "A".into(), "c".into()],
    };
    Cfg { ds: ds.into(), de: de.into(), tl_tag: "tl".into(), rm_tag: "rm".into(), now, offset, targets }
}

/// an opening tag with a well-formed (in-grammar) body
pub fn gen_open_tag(t: &mut Tape, ds: &str, de: &str) -> String {
    let nm = t.s(&["rm", "rm", "tl", "tl", "zz", "RM", "rmx"]);
    let q = if t.chance(50) { '"' } else { '\'' };
    let mut attrs: Vec<String> = vec![];
    let n = t.below(4);
    for _ in 0..n {
        let a = match t.below(12) {
            0..=2 => format!("name={q}{}{q}", t.s(&["a", "b", "A", "ab", "", "a ", "skip", "c"])),
            3..=4 => format!("to={q}{}{q}", t.s(&["2020-01-01 00:00:00", "2999-01-01 00:00:00", "2019-12-31 23:59:59", "2001-01-01 00:00:00"])),
            5 => format!("to={q}{}{q}", t.s(MALFORMED_TO)),
            6 => "skip".to_string(),
            7 => "unwrap-block".to_string(),
            8 => format!("c={q}{}{q}", t.s(&["skip", "x y", "a=b", "unwrap-block", "/rm", "", "日本語", "x\ny"])),
            9 => t.s(&["foo", "*", "a.b", "to", "name"]).to_string(),
            10 => format!("name {} {q}a{q}", "="),
            _ => format!("data-x={q}1{q}"),
        };
        attrs.push(a);
    }
    // the end delimiter must not occur inside the body, and duplicates of to/name are unspecified
    let mut body = String::new();
    if t.chance(25) {
        body.push(' ');
    }
    body.push_str(nm);
    for a in &attrs {
        body.push_str(t.s(&[" ", " ", " ", "\n", "  ", "\n  ", " \n"]));
        body.push_str(a);
    }
    if t.chance(20) {
        body.push(' ');
    }
    format!("{ds}{body}{de}")
}

pub fn gen_close_tag(t: &mut Tape, ds: &str, de: &str) -> String {
    let nm = t.s(&["rm", "rm", "tl", "tl", "zz", "qq", "RM"]);
    format!("{ds}{}/{nm}{}{de}", if t.chance(15) { " " } else { "" }, if t.chance(15) { " " } else { "" })
}

/// Atom soup.
pub fn gen_soup(t: &mut Tape, delims: &[(&'static str, &'static str)], allow_bad_offset: bool) -> JunkCase {
    let (ds, de) = *t.pick(delims);
    let cfg = gen_cfg(t, ds, de, allow_bad_offset);
    let n = t.below(24);
    let dsc: Vec<char> = ds.chars().collect();
    let dec: Vec<char> = de.chars().collect();
    let mut src = String::new();
    for _ in 0..n {
        match t.below(24) {
            0..=4 => src.push_str(&gen_open_tag(t, ds, de)),
            5..=8 => src.push_str(&gen_close_tag(t, ds, de)),
            9..=11 => src.push_str(t.s(&["foo", "bar();", "x", "日本語", "é", "😀", "call(a, b)", "{", "}"])),
            12..=13 => src.push_str(t.s(&[" ", "  ", "\t", "    "])),
            14..=17 => src.push('\n'),
            18 => src.push_str(ds),
            19 => src.push_str(de),
            20 => {
                let m = 1 + t.below(dsc.len());
                src.extend(dsc.iter().take(m));
            }
            21 => {
                let m = t.below(dec.len());
                src.extend(dec.iter().skip(m));
            }
            22 => {
                // blank or unparsable tag
                src.push_str(ds);
                src.push_str(t.s(&[" ", "  ", "='x'", "\"q\" rm", "'"]));
                src.push_str(de);
            }
            _ => src.push_str(t.s(&["'", "\"", "=", "/", "\r\n", "\r"])),
        }
    }
    JunkCase { src, cfg }
}

/// An AST document with 1..4 random edits.
pub fn gen_mutated(t: &mut Tape, o: &Opts) -> JunkCase {
    let (doc, sp) = astgen::gen_doc(t, o);
    let acfg = astgen::gen_acfg(t);
    let r = astgen::render(&doc, &sp);
    let cfg = acfg.to_cfg(&sp);
    let mut src = r.src;
    let edits = 1 + t.below(4);
    for _ in 0..edits {
        let mut lines: Vec<String> = src.split('\n').map(|s| s.to_string()).collect();
        match t.below(8) {
            0 => {
                if !lines.is_empty() {
                    let i = t.below(lines.len());
                    lines.remove(i);
                }
                src = lines.join("\n");
            }
            1 => {
                if !lines.is_empty() {
                    let i = t.below(lines.len());
                    let l = lines[i].clone();
                    lines.insert(i, l);
                }
                src = lines.join("\n");
            }
            2 => {
                if lines.len() >= 2 {
                    let i = t.below(lines.len() - 1);
                    lines.swap(i, i + 1);
                }
                src = lines.join("\n");
            }
            3 => {
                let n = src.chars().count();
                if n > 0 {
                    let k = t.below(n.min(60000));
                    src = src.chars().enumerate().filter(|(i, _)| *i != k).map(|(_, c)| c).collect();
                }
            }
            4 => {
                let n = src.chars().count();
                let k = t.below(n.min(60000) + 1);
                let atom = match t.below(6) {
                    0 => sp.ds.clone(),
                    1 => sp.de.clone(),
                    2 => "\n".to_string(),
                    3 => gen_close_tag(t, &sp.ds, &sp.de),
                    4 => gen_open_tag(t, &sp.ds, &sp.de),
                    _ => " ".to_string(),
                };
                let mut out = String::new();
                for (i, c) in src.chars().enumerate() {
                    if i == k {
                        out.push_str(&atom);
                    }
                    out.push(c);
                }
                if k >= n {
                    out.push_str(&atom);
                }
                src = out;
            }
            5 => {
                let n = src.chars().count();
                if n > 0 {
                    let k = t.below(n.min(60000));
                    src = src.chars().take(k).collect();
                }
            }
            6 => src.push_str(t.s(&["あ", "😀", "é"])),
            _ => {
                // join two lines
                if lines.len() >= 2 {
                    let i = t.below(lines.len() - 1);
                    let l = lines.remove(i + 1);
                    lines[i].push_str(&l);
                }
                src = lines.join("\n");
            }
        }
    }
    JunkCase { src, cfg }
}

pub fn all_regular() -> Vec<(&'static str, &'static str)> {
    REGULAR_DELIMS.to_vec()
}
