//! Per-line ground truth for block-style documents (every tag alone on its line).

use crate::astgen::{Extent, Rendered, Truth};
use crate::refmodel::Decision;
use crate::util::{is_blank, lead};

#[derive(Clone, Debug, PartialEq, Eq)]
pub enum Fate {
    Kept,
    /// removed; `seam` identifies the removed region: element index * 4 + (0 whole element, 1 opening part, 2 closing part)
    Removed { seam: usize },
}

pub struct LineTruth {
    pub text: Vec<String>,
    pub fate: Vec<Fate>,
    /// for kept lines: (tag column t, dedent d) of every enclosing unwrapped element, outermost first
    pub dedents: Vec<Vec<(usize, usize)>>,
    /// expected text of kept lines after dedent
    pub expected: Vec<Option<String>>,
    /// for some surviving line, three readings of "nested dedent" (original offsets; outer block first with the inner
    /// block's amount recomputed on the shifted text; inner block first) give different indentations
    pub ambiguous: bool,
    /// the first inner line of an unwrapped element is whitespace-only but not empty
    pub ws_first_inner: bool,
    pub unwrapped: Vec<usize>,
}

pub fn line_truth(r: &Rendered, tr: &Truth) -> LineTruth {
    let n = r.lines.len();
    let text: Vec<String> = r.lines.iter().map(|(s, e)| r.src[*s..*e].to_string()).collect();
    let mut fate = vec![Fate::Kept; n];
    let mut dedents: Vec<Vec<(usize, usize)>> = vec![vec![]; n];
    // (tag column, first inner line's indentation) of every enclosing unwrapped element, outermost first
    let mut params: Vec<Vec<(usize, usize)>> = vec![vec![]; n];
    let mut ambiguous = false;
    let mut ws_first_inner = false;
    let mut unwrapped = vec![];
    // bound[i]: minimal column an unwrapped element whose tag is on line i may have (outer t + d)
    let mut bound = vec![0usize; n];
    for (i, e) in r.elems.iter().enumerate() {
        if tr.decisions[i] != Decision::Ready {
            continue;
        }
        match tr.extents[i] {
            Extent::Whole(_) => {
                for f in fate.iter_mut().take(e.close_line + 1).skip(e.open_first_line) {
                    if *f == Fate::Kept {
                        *f = Fate::Removed { seam: 4 * i };
                    }
                }
            }
            Extent::Parts(..) => {
                if fate[e.open_line] != Fate::Kept {
                    continue; // inside a removed region
                }
                unwrapped.push(i);
                let t = lead(&text[e.open_first_line]);
                let first_inner = &text[e.open_line + 2.min(e.close_line - e.open_line)];
                let has_inner = e.close_line - e.open_line - 1 > 2;
                let f = if has_inner { lead(first_inner) } else { 0 };
                if has_inner && is_blank(first_inner) && !first_inner.is_empty() {
                    ws_first_inner = true;
                }
                let d = f.saturating_sub(t);
                for l in e.open_first_line..=e.open_line + 1 {
                    if fate[l] == Fate::Kept {
                        fate[l] = Fate::Removed { seam: 4 * i + 1 };
                    }
                }
                for l in [e.close_line - 1, e.close_line] {
                    if fate[l] == Fate::Kept {
                        fate[l] = Fate::Removed { seam: 4 * i + 2 };
                    }
                }
                for l in e.open_line + 2..e.close_line - 1 {
                    dedents[l].push((t, d));
                    params[l].push((t, if has_inner { f } else { t }));
                    bound[l] = bound[l].max(t + d);
                }
            }
            _ => {}
        }
    }
    let mut expected = vec![None; n];
    for l in 0..n {
        if fate[l] != Fate::Kept {
            continue;
        }
        let mut s = text[l].clone();
        let li = lead(&text[l]);
        // apply from the innermost (largest column) to the outermost so that byte offsets stay valid
        let mut ds = dedents[l].clone();
        ds.sort_by(|a, b| b.0.cmp(&a.0));
        for (t, d) in ds {
            let rm = li.saturating_sub(t).min(d);
            if rm > 0 {
                let cut = t.min(s.len());
                let end = (cut + rm).min(lead(&s).max(cut));
                if end > cut {
                    s.replace_range(cut..end, "");
                }
            }
        }
        expected[l] = Some(s);
    }
    // ambiguity: compare three readings of the nested dedent on every surviving non-blank line with >= 2 enclosing blocks
    let step = |x: usize, t: usize, d: usize| x - x.saturating_sub(t).min(d);
    for l in 0..n {
        if fate[l] != Fate::Kept || is_blank(&text[l]) || params[l].len() < 2 {
            continue;
        }
        let li = lead(&text[l]);
        let ps = &params[l];
        // (B') innermost block first, every block with its amounts as written in the input
        let mut inner_first = li;
        for (t, f) in ps.iter().rev() {
            inner_first = step(inner_first, *t, f.saturating_sub(*t));
        }
        // (B) outermost block first; the tag column and the first inner line of the next block are shifted with it
        let mut shifted: Vec<(usize, usize)> = vec![];
        for (t, f) in ps.iter() {
            let (mut t2, mut f2) = (*t, *f);
            for (ta, da) in &shifted {
                t2 = step(t2, *ta, *da);
                f2 = step(f2, *ta, *da);
            }
            shifted.push((t2, f2.saturating_sub(t2)));
        }
        let mut outer_first = li;
        for (t, d) in &shifted {
            outer_first = step(outer_first, *t, *d);
        }
        // (A) what `expected` holds
        let a = expected[l].as_ref().map(|s| lead(s)).unwrap_or(li);
        if !(a == inner_first && a == outer_first) {
            ambiguous = true;
        }
    }
    LineTruth { text, fate, dedents, expected, ambiguous, ws_first_inner, unwrapped }
}

/// KF1 signature (narrowed after fix of the single-removal case): line 1 starts with a blank and carries the opening
/// tag of an element that is removed (default strategy or unwrappable), AND the removed region that begins there is
/// followed, after blanks and line breaks only, by another removed region (two tidied seams at the start of the file).
pub fn kf1_signature(r: &Rendered, tr: &Truth) -> bool {
    if !(r.src.starts_with(' ') || r.src.starts_with('\t')) {
        return false;
    }
    if !r.elems.iter().enumerate().any(|(i, e)| e.open_first_line == 0 && tr.decisions[i] == Decision::Ready && matches!(tr.extents[i], Extent::Whole(_) | Extent::Parts(..))) {
        return false;
    }
    let b = r.src.as_bytes();
    let mut k = 0;
    while k < b.len() && (b[k] == b' ' || b[k] == b'\t') {
        k += 1;
    }
    if k >= b.len() || tr.keep[k] {
        return false;
    }
    while k < b.len() && !tr.keep[k] {
        k += 1;
    }
    while k < b.len() && tr.keep[k] && (b[k] == b' ' || b[k] == b'\t' || b[k] == b'\n') {
        k += 1;
    }
    k < b.len() && !tr.keep[k]
}

/// Every maximal run of removed lines belongs to one seam and has a surviving non-blank line directly
/// before and directly after it.
pub fn strict(lt: &LineTruth) -> bool {
    let n = lt.fate.len();
    let mut i = 0;
    let mut any = false;
    while i < n {
        if let Fate::Removed { seam } = lt.fate[i] {
            any = true;
            let mut j = i;
            while j < n {
                match lt.fate[j] {
                    Fate::Removed { seam: s2 } => {
                        if s2 != seam {
                            return false;
                        }
                    }
                    Fate::Kept => break,
                }
                j += 1;
            }
            if i == 0 || j >= n {
                return false;
            }
            if is_blank(&lt.text[i - 1]) || is_blank(&lt.text[j]) {
                return false;
            }
            i = j;
        } else {
            i += 1;
        }
    }
    any
}


/// Why a document is not in the line-for-line sub-space of C11, or None if it is:
/// every maximal run of removed lines must belong to one seam, must not touch the start / end of the
/// file, and must not have blank lines on BOTH sides (one side is fine: those blank lines all survive).
pub fn residue_class(lt: &LineTruth) -> Option<&'static str> {
    let n = lt.fate.len();
    let mut i = 0;
    let mut any = false;
    let mut worst: Option<&'static str> = None;
    while i < n {
        if let Fate::Removed { seam } = lt.fate[i] {
            any = true;
            let mut j = i;
            let mut mixed = false;
            while j < n {
                match lt.fate[j] {
                    Fate::Removed { seam: s2 } => {
                        if s2 != seam {
                            mixed = true;
                        }
                    }
                    Fate::Kept => break,
                }
                j += 1;
            }
            if mixed {
                return Some("adjacent-removed-parts");
            }
            if i == 0 || j >= n {
                worst = Some("removed-part-at-file-boundary");
            } else {
                // blank (kept) lines directly before / after the run, and what lies beyond them
                let mut b = i;
                while b > 0 && lt.fate[b - 1] == Fate::Kept && is_blank(&lt.text[b - 1]) {
                    b -= 1;
                }
                let mut a = j;
                while a < n && lt.fate[a] == Fate::Kept && is_blank(&lt.text[a]) {
                    a += 1;
                }
                let (nb, na) = (i - b, a - j);
                // blank lines that border ANOTHER removed run (or the file boundary) make the seams adjacent
                let before_ok = b > 0 && lt.fate[b - 1] == Fate::Kept;
                let after_ok = a < n && lt.fate[a] == Fate::Kept;
                if !before_ok || !after_ok {
                    if nb > 0 || na > 0 || b == 0 || a >= n {
                        return Some("adjacent-removed-parts");
                    }
                }
                if nb > 0 && na > 0 {
                    // around a default-strategy removal this is the collapse C13 specifies (a+b-1); around an
                    // unwrap part the property says every line except the four survives
                    return Some(if seam % 4 == 0 { "default-removal-between-blank-lines(C13-formula)" } else { "blank-lines-on-both-sides" });
                }
            }
            i = j;
        } else {
            i += 1;
        }
    }
    if !any {
        return Some("nothing-removed");
    }
    worst
}
