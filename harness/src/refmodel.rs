//! Reference model, written from the property statements (not from the implementation):
//! R1 textbook tokenizer, R2 tag grammar, R3 stack pairing, R4 readiness, R5 removable extents.

use crate::util::{days_from_civil, Cfg};

// ---- R1 ---------------------------------------------------------------------------------------

/// Leftmost start delimiter, at least one body character, first end delimiter beginning after
/// that character; continue behind the span. Returns byte spans of tags.
pub fn ref_tags(src: &str, ds: &str, de: &str) -> Vec<(usize, usize)> {
    let mut out = vec![];
    let mut pos = 0;
    loop {
        let Some(s) = src[pos..].find(ds).map(|p| p + pos) else { break };
        let body = s + ds.len();
        let Some(c) = src[body..].chars().next() else { break };
        let from = body + c.len_utf8();
        let Some(e) = src[from..].find(de).map(|p| p + from) else { break };
        out.push((s, e + de.len()));
        pos = e + de.len();
    }
    out
}

/// Full reference partition: (is_tag, byte_start, byte_end), text runs merged.
pub fn ref_tokens(src: &str, ds: &str, de: &str) -> Vec<(bool, usize, usize)> {
    let mut out = vec![];
    let mut pos = 0;
    for (s, e) in ref_tags(src, ds, de) {
        if s > pos {
            out.push((false, pos, s));
        }
        out.push((true, s, e));
        pos = e;
    }
    if pos < src.len() {
        out.push((false, pos, src.len()));
    }
    out
}

// ---- R2 ---------------------------------------------------------------------------------------

#[derive(Debug, Clone, PartialEq)]
pub enum Tag {
    Ok { name: String, attrs: Vec<(String, Option<String>)> },
    /// not a tag at all: blank body, or first non-space character is `=`, `"`, `'`
    NotATag,
    /// shapes no property specifies (unquoted values, quote inside a bare word, tab/CR outside
    /// values, leading line break, `name=..` as first word, missing separator after a value)
    OutOfGrammar(&'static str),
}

pub fn ref_parse(body: &str) -> Tag {
    let cs: Vec<char> = body.chars().collect();
    let n = cs.len();
    let issep = |c: char| c == ' ' || c == '\n';
    let mut i = 0;
    while i < n && issep(cs[i]) {
        if cs[i] == '\n' {
            return Tag::OutOfGrammar("leading-line-break");
        }
        i += 1;
    }
    if i == n {
        return if body.contains('\n') { Tag::OutOfGrammar("blank-with-line-break") } else { Tag::NotATag };
    }
    if matches!(cs[i], '=' | '"' | '\'') {
        return Tag::NotATag;
    }
    let mut words: Vec<(String, Option<String>)> = vec![];
    loop {
        let st = i;
        while i < n && !issep(cs[i]) && cs[i] != '=' {
            if matches!(cs[i], '"' | '\'') {
                return Tag::OutOfGrammar("quote-in-bare-word");
            }
            if matches!(cs[i], '\t' | '\r') {
                return Tag::OutOfGrammar("tab-or-cr-outside-value");
            }
            i += 1;
        }
        let w: String = cs[st..i].iter().collect();
        if w.is_empty() {
            return Tag::OutOfGrammar("empty-word");
        }
        let mut j = i;
        while j < n && cs[j] == ' ' {
            j += 1;
        }
        if j < n && cs[j] == '=' {
            if words.is_empty() {
                return Tag::OutOfGrammar("element-name-with-value");
            }
            j += 1;
            while j < n && cs[j] == ' ' {
                j += 1;
            }
            if j >= n {
                return Tag::OutOfGrammar("missing-value");
            }
            let q = cs[j];
            if q != '"' && q != '\'' {
                return Tag::OutOfGrammar("unquoted-value");
            }
            let vs = j + 1;
            let mut k = vs;
            while k < n && cs[k] != q {
                k += 1;
            }
            if k >= n {
                return Tag::OutOfGrammar("unterminated-value");
            }
            words.push((w, Some(cs[vs..k].iter().collect())));
            i = k + 1;
            if i < n && !issep(cs[i]) {
                return Tag::OutOfGrammar("no-separator-after-value");
            }
        } else {
            words.push((w, None));
        }
        while i < n && issep(cs[i]) {
            i += 1;
        }
        if i >= n {
            break;
        }
    }
    let (name, _) = words.remove(0);
    Tag::Ok { name, attrs: words }
}

// ---- R4 ---------------------------------------------------------------------------------------

/// Values of `to` that every reading of the property calls malformed (observed rejected, too).
pub const MALFORMED_TO: &[&str] = &[
    "",
    "2020/01/01 00:00:00",
    "2020-01-01T00:00:00",
    "2020-01-01",
    "2020-01-01 00:00",
    "2020-13-01 00:00:00",
    "2020-02-30 00:00:00",
    "2019-02-29 00:00:00",
    "2020-01-01 24:00:00",
    "2020-01-01 00:60:00",
    "2020-01-01 00:00:61",
    "2020-01-01 00:00:00 +09:00",
    "2020-01-01 00:00:00Z",
    "2020-01-01 00:00:00 UTC",
    "yesterday",
    "00:00:00 2020-01-01",
    "2020.01.01 00.00.00",
    "2020-00-10 00:00:00",
    "2020-01-00 00:00:00",
    "2020-01-32 00:00:00",
    "2020-04-31 00:00:00",
];

/// Offset strings that are clearly malformed (observed rejected).
pub const MALFORMED_OFFSET: &[&str] =
    &["", "JST", "0900", "09:00", "+24:00", "+99:99", "+09:60", "+09:00x", "+090", "+09000", "junk", "+aa:bb", "local"];

/// strict `YYYY-MM-DD HH:MM:SS` → seconds since epoch of that wall clock read as UTC
pub fn strict_to(v: &str) -> Option<i64> {
    let b = v.as_bytes();
    if b.len() != 19 {
        return None;
    }
    let pat = b"dddd-dd-dd dd:dd:dd";
    for (i, p) in pat.iter().enumerate() {
        match p {
            b'd' => {
                if !b[i].is_ascii_digit() {
                    return None;
                }
            }
            c => {
                if b[i] != *c {
                    return None;
                }
            }
        }
    }
    let num = |a: usize, z: usize| v[a..z].parse::<i64>().unwrap();
    let (y, mo, d, h, mi, s) = (num(0, 4), num(5, 7), num(8, 10), num(11, 13), num(14, 16), num(17, 19));
    if !(1..=12).contains(&mo) || d < 1 || h > 23 || mi > 59 || s > 59 {
        return None;
    }
    let leap = (y % 4 == 0 && y % 100 != 0) || y % 400 == 0;
    let dim = [31, if leap { 29 } else { 28 }, 31, 30, 31, 30, 31, 31, 30, 31, 30, 31][(mo - 1) as usize];
    if d > dim {
        return None;
    }
    Some(days_from_civil(y, mo as u32, d as u32) * 86400 + h * 3600 + mi * 60 + s)
}

/// strict `[+-]HH:MM` / `[+-]HHMM`, HH <= 14, MM <= 59 → seconds east of UTC
pub fn strict_offset(o: &str) -> Option<i64> {
    let b = o.as_bytes();
    let (sign, rest) = match b.first() {
        Some(b'+') => (1, &o[1..]),
        Some(b'-') => (-1, &o[1..]),
        _ => return None,
    };
    let (hh, mm) = if rest.len() == 5 && rest.as_bytes()[2] == b':' {
        (&rest[0..2], &rest[3..5])
    } else if rest.len() == 4 {
        (&rest[0..2], &rest[2..4])
    } else {
        return None;
    };
    if !hh.bytes().all(|c| c.is_ascii_digit()) || !mm.bytes().all(|c| c.is_ascii_digit()) {
        return None;
    }
    let (h, m): (i64, i64) = (hh.parse().unwrap(), mm.parse().unwrap());
    if h > 14 || m > 59 {
        return None;
    }
    Some(sign * (h * 3600 + m * 60))
}

#[derive(Debug, Clone, Copy, PartialEq, Eq)]
pub enum Decision {
    Ready,
    Pending, // registered name, condition does not hold, not skip
    Skip,    // carries a skip attribute
    Unregistered,
}

/// R4: decision for one element. None = the inputs are in a gray zone no property specifies.
pub fn decide(name: &str, attrs: &[(String, Option<String>)], cfg: &Cfg) -> Option<Decision> {
    let is_tl = name == cfg.tl_tag;
    let is_rm = name == cfg.rm_tag;
    if is_tl && is_rm {
        return None; // both configured names equal: unspecified
    }
    if !is_tl && !is_rm {
        return Some(Decision::Unregistered);
    }
    if attrs.iter().any(|(k, _)| k == "skip") {
        return Some(Decision::Skip);
    }
    let key = if is_tl { "to" } else { "name" };
    let mut vals = attrs.iter().filter(|(k, _)| k == key);
    let first = vals.next();
    if vals.next().is_some() {
        return None; // duplicate condition attribute: unspecified
    }
    let cond = match first {
        None => false,
        Some((_, None)) => false,
        Some((_, Some(v))) => {
            if is_rm {
                cfg.targets.iter().any(|t| t == v)
            } else {
                let ofs = match strict_offset(&cfg.offset) {
                    Some(o) => Some(o),
                    None if MALFORMED_OFFSET.contains(&cfg.offset.as_str()) => None,
                    None => return None,
                };
                let to = match strict_to(v) {
                    Some(t) => Some(t),
                    None if MALFORMED_TO.contains(&v.as_str()) => None,
                    None => return None,
                };
                match (to, ofs) {
                    (Some(t), Some(o)) => t - o <= cfg.now,
                    _ => false,
                }
            }
        }
    };
    Some(if cond { Decision::Ready } else { Decision::Pending })
}

// ---- R3 + R5: elements of a document ------------------------------------------------------------

#[derive(Debug, Clone)]
pub struct El {
    pub open: (usize, usize),
    pub close: (usize, usize),
    pub decision: Decision,
    pub unwrap: bool,
    pub depth: usize,
}

pub enum Model {
    Ok(Vec<El>),
    OutOfDomain(&'static str),
}

/// Elements (matched pairs) of `src` under `cfg`, by R1 + R2 + R3 + R4.
pub fn model(src: &str, cfg: &Cfg) -> Model {
    let (ds, de) = (cfg.ds.as_str(), cfg.de.as_str());
    let tags = ref_tags(src, ds, de);
    let mut stack: Vec<(String, usize, Vec<(String, Option<String>)>)> = vec![];
    let mut els = vec![];
    for (ti, &(s, e)) in tags.iter().enumerate() {
        let body = &src[s + ds.len()..e - de.len()];
        if body.starts_with(ds) || body.ends_with(de) {
            return Model::OutOfDomain("body-touches-delimiter");
        }
        match ref_parse(body) {
            Tag::OutOfGrammar(_) => return Model::OutOfDomain("grammar"),
            Tag::NotATag => {}
            Tag::Ok { name, attrs } => {
                if let Some(n) = name.strip_prefix('/') {
                    if n.starts_with('/') {
                        return Model::OutOfDomain("double-slash");
                    }
                    if let Some(p) = stack.iter().rposition(|(x, _, _)| x == n) {
                        let (nm, oi, at) = stack[p].clone();
                        stack.truncate(p);
                        let Some(decision) = decide(&nm, &at, cfg) else { return Model::OutOfDomain("gray-condition") };
                        let unwrap = at.iter().any(|(k, _)| k == "unwrap-block");
                        els.push(El { open: tags[oi], close: (s, e), decision, unwrap, depth: 0 });
                        continue;
                    }
                }
                stack.push((name, ti, attrs));
            }
        }
    }
    // depth = number of enclosing pairs
    let spans: Vec<(usize, usize)> = els.iter().map(|e| (e.open.0, e.close.1)).collect();
    for e in els.iter_mut() {
        e.depth = spans.iter().filter(|(o, c)| *o < e.open.0 && *c > e.close.1).count();
    }
    Model::Ok(els)
}

pub struct Extents {
    /// keep[i] == false: byte i lies in the removable extent of a ready element
    pub keep: Vec<bool>,
    /// byte i lies between the wrapper parts of an unwrapped ready element
    pub inbody: Vec<bool>,
    pub any_ready: bool,
    pub n_ready: usize,
    pub n_unwrapped: usize,
}

/// The two wrapper parts of an unwrap-block element by the C11 description:
/// (open-tag start .. end of the line after the tag line, start of the line before the closing-tag
/// line .. close-tag end). Err(reason): the tags do not stand alone on their lines (out of C11's
/// domain). Ok(None): fewer than two lines between the tags → the element is left untouched.
pub fn unwrap_parts(src: &str, open: (usize, usize), close: (usize, usize)) -> Result<Option<((usize, usize), (usize, usize))>, &'static str> {
    let blank = |t: &str| t.chars().all(|c| c == ' ' || c == '\t');
    let ls = src[..open.0].rfind('\n').map(|p| p + 1).unwrap_or(0);
    let le = src[open.1..].find('\n').map(|p| p + open.1);
    let cs = src[..close.0].rfind('\n').map(|p| p + 1).unwrap_or(0);
    let ce = src[close.1..].find('\n').map(|p| p + close.1).unwrap_or(src.len());
    let Some(le) = le else {
        // no line break after the opening tag: the whole element sits on the last line
        return Ok(None);
    };
    if le >= close.0 {
        // whole element on a single line: untouched
        return Ok(None);
    }
    if !blank(&src[ls..open.0]) || !blank(&src[open.1..le]) || !blank(&src[cs..close.0]) || !blank(&src[close.1..ce]) {
        return Err("unwrap-tags-not-alone");
    }
    // end of the line after the tag line
    let h2 = src[le + 1..].find('\n').map(|p| p + le + 1);
    // the '\n' before the closing-tag line, and the one before the closing wrapper line
    if cs == 0 {
        return Ok(None);
    }
    let t1 = cs - 1;
    let t2 = src[..t1].rfind('\n');
    match (h2, t2) {
        (Some(h2), Some(t2)) if t2 >= h2 => Ok(Some(((open.0, h2), (t2 + 1, close.1)))),
        _ => Ok(None),
    }
}

pub fn extents(src: &str, els: &[El]) -> Result<Extents, &'static str> {
    let mut keep = vec![true; src.len()];
    let mut inbody = vec![false; src.len()];
    let (mut n_ready, mut n_unwrapped) = (0, 0);
    for e in els {
        if e.decision != Decision::Ready {
            continue;
        }
        if !e.unwrap {
            n_ready += 1;
            for k in keep.iter_mut().take(e.close.1).skip(e.open.0) {
                *k = false;
            }
        } else {
            match unwrap_parts(src, e.open, e.close)? {
                None => {}
                Some((h, t)) => {
                    n_ready += 1;
                    n_unwrapped += 1;
                    for k in keep.iter_mut().take(h.1).skip(h.0) {
                        *k = false;
                    }
                    for k in keep.iter_mut().take(t.1).skip(t.0) {
                        *k = false;
                    }
                    for b in inbody.iter_mut().take(t.0).skip(h.1) {
                        *b = true;
                    }
                }
            }
        }
    }
    Ok(Extents { keep, inbody, any_ready: n_ready > 0, n_ready, n_unwrapped })
}

pub fn kept_text(src: &str, keep: &[bool]) -> String {
    let bytes: Vec<u8> = src.bytes().enumerate().filter(|(i, _)| keep[*i]).map(|(_, b)| b).collect();
    String::from_utf8(bytes).unwrap_or_default()
}
