pub mod astgen;
pub mod cli;
pub mod engine;
pub mod junkgen;
pub mod pools;
pub mod props;
pub mod refmodel;
pub mod util;
