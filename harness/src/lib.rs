pub mod engine;
pub mod pools;
pub mod props;
pub mod refmodel;
pub mod util;
