//! Pools shared by the generators.

/// Regular delimiter spellings (start, end).
pub const REGULAR_DELIMS: &[(&str, &str)] = &[
    ("<", ">"),
    ("<!-- <", "> -->"),
    ("<!--", "-->"),
    ("/* <", "> */"),
    ("// --", "-- //"),
    ("[[", "]]"),
    ("{%", "%}"),
    ("(*", "*)"),
    ("$(", ")$"),
    ("aab", "bba"),
    ("|", "|"),
    ("「", "」"),
    ("«", "»"),
    ("/*★", "★*/"),
    ("😀", "😀😀"),
    // padded comment style: the delimiters themselves begin / end with a blank
    ("<!-- ", " -->"),
    ("/* ", " */"),
    ("%%", "%%"),
];

/// Hostile spellings, used for totality and tokenization only.
pub const HOSTILE_DELIMS: &[(&str, &str)] = &[
    (" ", " "),
    ("\n", "\n"),
    ("a", "a"),
    ("=", "="),
    ("'", "'"),
    ("/", "/"),
    ("//", "\n"),
    ("# ", "\n"),
    ("\t", "\t"),
    // long delimiters (a partial match can be longer than any fixed-size window)
    ("<!-- chiritori-tag <", "> chiritori-tag -->"),
    ("@@@@@@@@@@@@@@@@@@", "%%%%%%%%%%%%%%%%%%%"),
];

/// Code words for text outside tags. Filtered per spelling so that no non-blank character of a
/// delimiter occurs in them.
pub const WORDS: &[&str] = &[
    "foo();", "bar = 1", "x", "call(a, b)", "日本語 text", "é😀", "{", "}", "if (x) {", "return;", "k9", "z_9", "7", "q;", "let v = w", "// c", "# c",
    "end", "w.w, z", "ßü", "\"s\"", "'c'", "a=b", "skip", "unwrap-block",
    // "words" made of non-ASCII / control white space: for chiritori these are ordinary non-blank text
    "\u{3000}", "\u{a0}\u{a0}", "\u{c}",
];

pub fn delim_chars(ds: &str, de: &str) -> Vec<char> {
    let mut v: Vec<char> = ds.chars().chain(de.chars()).filter(|c| !matches!(c, ' ' | '\t' | '\n')).collect();
    v.sort();
    v.dedup();
    v
}

/// Words usable with every given spelling.
pub fn words_for(spellings: &[(&str, &str)]) -> Vec<&'static str> {
    let mut bad: Vec<char> = vec![];
    for (ds, de) in spellings {
        bad.extend(delim_chars(ds, de));
    }
    let v: Vec<&'static str> = WORDS.iter().copied().filter(|w| !w.chars().any(|c| bad.contains(&c))).collect();
    if v.is_empty() {
        vec!["7"]
    } else {
        v
    }
}
